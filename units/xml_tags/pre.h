/* unit xml_tags: the token layer of xml::Parser (readAttributes, readComment, readCData, readEndTag, readStartOrEmptyTag, emitEof, next).
 * The cursor layer below it is NOT re-verified here: calls are replaced by the contracts proved in unit xml_cursor
 * (../xml_cursor/contracts.h, same text), with the per-call definitional ghosts substituted by their definitions. */
#define XML_GHOST_INLINE
#include "iora_xml.h"
#include "../xml_cursor/contracts.h"

/* ---- element stack: std::vector<std::string> as depth + witness entry at ghost level GL (type in iora_xml.h) ---- */
static inline bool iora_strstack_empty(const iora_strstack *s) { return s->n == 0; }
static inline void iora_strstack_clear(iora_strstack *s) { s->n = 0; }
static inline void iora_strstack_pop_back(iora_strstack *s) { IORA_ASSERT(s->n > 0, "vector::pop_back() on an empty vector"); s->n--; }
/* push_back(std::string(name)): the new entry is a copy of the slice `v` of the (immutable) input */
static inline void iora_strstack_push_back_sv(iora_strstack *s, const iora_sv *in, iora_sv v)
{
  IORA_ASSERT(__CPROVER_same_object(v.p, in->p), "pushed name is a slice of the input");
  if (s->n == GL) { s->wit_off = (size_t)__CPROVER_POINTER_OFFSET(v.p); s->wit_n = v.n; }
  IORA_ASSERT(s->n < (size_t)-1, "vector growth");
  s->n++;
}
/* back(): precondition only (the value is used for a diagnostic text) */
static inline int iora_strstack_back(const iora_strstack *s) { IORA_ASSERT(s->n > 0, "vector::back() on an empty vector"); return 0; }
static inline const char *iora_diag3(const char *a, int top, const char *b, iora_sv name, const char *c) { (void)a; (void)top; (void)b; (void)name; (void)c; return "diagnostic"; }
static inline void iora_strstack_diag_all(const iora_strstack *s) { (void)s; }
/* `_elementStack.back() != name` (std::string vs string_view): CONTENT comparison. The result is nondeterministic but, when the top is the
 * witness entry, consistent with the contents: equal => same length and same byte at the arbitrary index GK; different => the lengths
 * differ or some byte differs. (Assumptions of this shim = the meaning of operator!=; listed in trusted_base.) */
size_t G_cmp_k;
static inline bool iora_strstack_top_ne(const iora_strstack *s, const iora_sv *in, iora_sv name)
{
  IORA_ASSERT(s->n > 0, "vector::back() on an empty vector");
  IORA_ASSERT(__CPROVER_same_object(name.p, in->p), "compared name is a slice of the input");
  bool ne = nondet_bool();
  if (s->n - 1 == GL)
  {
    size_t no = (size_t)__CPROVER_POINTER_OFFSET(name.p);
    size_t k = nondet_size_t();
    if (ne) { IORA_ASSUME(s->wit_n != name.n || (k < name.n && in->p[s->wit_off + k] != in->p[no + k])); }
    else { IORA_ASSUME(s->wit_n == name.n && (GK >= name.n || in->p[s->wit_off + GK] == in->p[no + GK])); }
  }
  return ne;
}

/* `_elementStack.back().compare(pos, n, name)` (std::string::compare(pos, n, string_view)): compares the SUBSTRING top[pos, pos + min(n, size - pos))
 * with name: first the common bytes, then the two LENGTHS (substring length vs name.size()). pos > size() throws std::out_of_range (asserted not to
 * happen). Over the witness entry the nondeterministic result is consistent with the contents: 0 => the substring has the length of `name` and the
 * same byte at the arbitrary index GK; != 0 => the lengths differ or some byte differs. Other levels answer nondeterministically. */
static inline int iora_strstack_top_compare(const iora_strstack *s, const iora_sv *in, size_t pos, size_t n, iora_sv name)
{
  IORA_ASSERT(s->n > 0, "vector::back() on an empty vector");
  IORA_ASSERT(__CPROVER_same_object(name.p, in->p), "compared name is a slice of the input");
  int r = nondet_int();
  if (s->n - 1 == GL)
  {
    IORA_ASSERT(pos <= s->wit_n, "std::string::compare: pos <= size() (else std::out_of_range)");
    size_t sub = n < s->wit_n - pos ? n : s->wit_n - pos;
    size_t no = (size_t)__CPROVER_POINTER_OFFSET(name.p);
    size_t k = nondet_size_t();
    if (r != 0) { IORA_ASSUME(sub != name.n || (k < name.n && in->p[s->wit_off + pos + k] != in->p[no + k])); }
    else { IORA_ASSUME(sub == name.n && (GK >= name.n || in->p[s->wit_off + pos + GK] == in->p[no + GK])); }
  }
  return r;
}

#include "contracts.h"

/* ---- callee contracts (replace) : conjunctions of groups proved in unit xml_cursor ---- */
DECL_skipSpaces(Parser_skipSpaces_c, SKIP_SAFE)
DECL_skipSpaces(Parser_skipWhitespaceOutsideText_c, SKIP_SAFE)
DECL_match(Parser_matchString_c, MATCH_SAFE)
DECL_match(Parser_matchWordCaseInsensitive_c, MATCH_SAFE)
DECL_readName(Parser_readName_c, RNAME_SAFE)
DECL_readUntil(Parser_readUntil_c, UNTIL_SAFE UNTIL_RANGE)
DECL_readQuotedValue(Parser_readQuotedValue_c, RQV_SAFE RQV_SLICE)
DECL_readText(Parser_readText_c, RTEXT_SAFE RTEXT_SLICE)
void Parser_skipSpaces(Parser *self);
void Parser_skipWhitespaceOutsideText(Parser *self);
bool Parser_matchString(Parser *self, const char *s);
bool Parser_matchWordCaseInsensitive(Parser *self, const char *s);
iora_sv Parser_readName(Parser *self);
bool Parser_readUntil(Parser *self, iora_sv endSeq, size_t *startOut, size_t *lenOut);
bool Parser_readQuotedValue(Parser *self, iora_sv *out);
bool Parser_readText(Parser *self, size_t startOffset, size_t startLine, size_t startCol);
bool Parser_readProcessingInstruction(Parser *self, size_t startOffset, size_t startLine, size_t startCol);
bool Parser_readDoctype(Parser *self, size_t startOffset, size_t startLine, size_t startCol);

/* ---- loop contract: readAttributes. Each round consumes at least name + '=' + two quotes; the count is tested right after each push ---- */
#define IORA_LOOP_Parser_readAttributes_1 IORA_LC( \
  __CPROVER_assigns(self->_cur, self->_line, self->_col, self->_hasError, self->_error, attrs->n, attrs->gk) \
  __CPROVER_loop_invariant(XML_CUR_INV(self) && self->_cur >= __CPROVER_loop_entry(self->_cur) && self->_hasError == __CPROVER_loop_entry(self->_hasError)) \
  __CPROVER_loop_invariant(attrs->n <= self->_opt.maxAttrsPerElement && attrs->n <= self->_cur - __CPROVER_loop_entry(self->_cur)) \
  __CPROVER_loop_invariant(GA < attrs->n ==> (XML_SLICE_IN(self, attrs->gk.name) && XML_SLICE_IN(self, attrs->gk.value) && attrs->gk.name.n >= 1 \
       && attrs->gk.name.n <= self->_opt.maxNameLength && attrs->gk.value.n <= self->_opt.maxTextSpan)) \
  __CPROVER_decreases(self->_input.n - self->_cur))

/* ---- string_view::find("?>", pos): first-occurrence stub (contract-replaced; loop inside). GF = arbitrary ghost index of the first-occurrence clause.
 *      The plain C body `_impl` is proved against the same contract (proof find2_lemma). ---- */
size_t GF;
#define XSV_F2_AT(s, k, w) (((s)->p[k] == (w)[0]) & ((s)->p[(k) + 1] == (w)[1]))
#define XSV_F2_R __CPROVER_return_value
size_t xsv_find_str2(const iora_sv *s, const char *w, size_t pos)
  __CPROVER_requires(IORA_TRUE && w[0] != 0 && w[1] != 0 && w[2] == 0)
  __CPROVER_assigns()
  __CPROVER_ensures(XSV_F2_R == IORA_NPOS || (pos <= XSV_F2_R && XSV_F2_R < s->n && s->n - XSV_F2_R >= 2))
  __CPROVER_ensures(XSV_F2_R != IORA_NPOS ==> XSV_F2_AT(s, XSV_F2_R, w))
  __CPROVER_ensures((pos <= GF && GF < s->n && s->n - GF >= 2 && (XSV_F2_R == IORA_NPOS || GF < XSV_F2_R)) ==> !XSV_F2_AT(s, GF, w));
size_t xsv_find_str2_impl(const iora_sv *s, const char *w, size_t pos)
{
  size_t k = pos;
  while (k < s->n && s->n - k >= 2)
  IORA_LC(__CPROVER_assigns(k)
          __CPROVER_loop_invariant(pos <= k && (k <= s->n || k == pos))
          __CPROVER_loop_invariant((pos <= GF && GF < k && GF < s->n && s->n - GF >= 2) ==> !XSV_F2_AT(s, GF, w))
          __CPROVER_decreases(s->n - k))
  {
    if (XSV_F2_AT(s, k, w)) return k;
    k++;
  }
  return IORA_NPOS;
}

/* ---- loop contracts of readProcessingInstruction / readDoctype ---- */
#define IORA_LOOP_Parser_readProcessingInstruction_1 IORA_LC( __CPROVER_assigns(self->_cur, self->_line, self->_col) \
  __CPROVER_loop_invariant(XML_CUR_INV(self) && self->_cur >= __CPROVER_loop_entry(self->_cur) && self->_cur <= pos + 2) \
  __CPROVER_decreases(pos + 2 - self->_cur))
/* the '[' counter is bounded by the bytes scanned (so it cannot overflow for inputs < 2^31 bytes) and never negative */
#define IORA_LOOP_Parser_readDoctype_1 IORA_LC( __CPROVER_assigns(pos, bracket) \
  __CPROVER_loop_invariant(self->_cur <= pos && pos <= self->_input.n && bracket >= 0 && (size_t)bracket <= pos - self->_cur) \
  __CPROVER_decreases(self->_input.n - pos))
#define IORA_LOOP_Parser_readDoctype_2 IORA_LC( __CPROVER_assigns(self->_cur, self->_line, self->_col) \
  __CPROVER_loop_invariant(XML_CUR_INV(self) && self->_cur >= __CPROVER_loop_entry(self->_cur) && self->_cur <= pos + 1) \
  __CPROVER_decreases(pos + 1 - self->_cur))
