/* unit udp_close: UdpEngine::closeNow (C02 exactly one close; C06 closing never redirects another peer's datagrams) */
#include "closenow_contract.h"

/* X4: enforce-only companion contract (it reads *s after the call, which a caller that assumes the contract must not do) */
void UdpEngine_closeNow_flag(UdpEngine *self, Session *s, TransportError why, iora_strid m, int iora_unused)
CLOSENOW_PRE_AND_FRAME
/* X4 marked closed (observable while the object exists, i.e. for a witness id other than this one) */ __CPROVER_ensures(CN_SID0 != GSID ==> s->closed)
;

/* idempotence: a NULL session or an already closed one => NOTHING is assigned (empty assigns clause), no callback, nothing freed */
void UdpEngine_closeNow_null(UdpEngine *self, Session *s, TransportError why, iora_strid m, int iora_unused)
__CPROVER_requires(IORA_TRUE && __CPROVER_is_fresh(self, sizeof(*self)) && s == NULL)
__CPROVER_assigns()
;
void UdpEngine_closeNow_closed(UdpEngine *self, Session *s, TransportError why, iora_strid m, int iora_unused)
__CPROVER_requires(IORA_TRUE && __CPROVER_is_fresh(self, sizeof(*self)) && __CPROVER_is_fresh(s, sizeof(*s)) && s->closed)
__CPROVER_assigns()
/* X0 stays closed */ __CPROVER_ensures(s->closed)
;

void h_closeNow(void)
{
  UdpEngine *e; Session *s; TransportError why; iora_strid m; int u;
  UdpEngine_closeNow(e, s, why, m, u);
  IORA_CANARY("h_closeNow: returns");
  if (G_close_calls) { IORA_CANARY("h_closeNow: connected-client path"); } else { IORA_CANARY("h_closeNow: listener-side path"); }
  if (G_closeCb_calls) { IORA_CANARY("h_closeNow: callback ran"); } else { IORA_CANARY("h_closeNow: no callback registered"); }
}

void h_closeNow_idem(void)
{
  UdpEngine *e; Session *s; TransportError why; iora_strid m; int u;
  UdpEngine_closeNow(e, s, why, m, u);
  IORA_CANARY("h_closeNow_idem: returns");
}

#ifdef IORA_SEARCH
/* SEARCH (bounded stand-in used only to obtain a concrete scenario for REPLAY): concrete engine, one session, scalar nondet inputs */
void h_search(void)
{
  size_t IDX_HAS = nondet_size_t(), IDX_VAL = nondet_size_t(), SID = nondet_size_t(), ROLE = nondet_size_t(), PKEY_IS_K = nondet_size_t(), CLOSED = nondet_size_t();
  __CPROVER_assume(IDX_HAS <= 1 && ROLE <= 1 && PKEY_IS_K <= 1 && CLOSED <= 1 && SID >= 1 && SID <= 3 && IDX_VAL >= 1 && IDX_VAL <= 3);
  /* INVb: an index entry that maps to this session carries this session's key, listener-side */
  __CPROVER_assume(!(IDX_HAS && IDX_VAL == SID) || (PKEY_IS_K && ROLE == 0));
  IORA_TRUE = 1; GPK = 7; GSID = SID; GFD = 5; G = (struct iora_udp_ghost){0};     /* definite start values: the search build runs with --nondet-static */
  static UdpEngine E; E = (UdpEngine){0}; Session *s = malloc(sizeof(Session)); __CPROVER_assume(s != NULL);
  *s = Session_DEFAULT;
  s->id = SID; s->role = ROLE ? Role_ClientConnected : Role_ServerPeer; s->fd = 5; s->pkey = PKEY_IS_K ? 7 : 8; s->closed = CLOSED != 0;
  E._sessions.has = 1; E._sessions.val = s;
  E._peerIndex.has = IDX_HAS != 0; E._peerIndex.val = IDX_VAL; E._atomicStats.sessionsCurrent = 2; E._cbs.onClose.set = 1;
  UdpEngine_closeNow(&E, s, TransportError_Unknown, 0, 0);
  if (!CLOSED) {
    __CPROVER_assert(G_closeCb_calls == 1 && G_closeCb_sid == SID && G_closeCb_erased, "X1/X2 exactly one close callback, after the erase");
    __CPROVER_assert(!(IDX_HAS && IDX_VAL != SID) || (E._peerIndex.has && E._peerIndex.val == IDX_VAL), "U1 peer-index frame");
    __CPROVER_assert(!(IDX_HAS && IDX_VAL == SID) || !E._peerIndex.has, "U2 own index entry removed");
  } else {
    __CPROVER_assert(G_closeCb_calls == 0 && E._peerIndex.has == (IDX_HAS != 0), "idempotence");
  }
}
#endif
