/* Contract of UdpEngine::closeNow for an OPEN, non-NULL session.  Written from properties C02 ("exactly one close notification",
 * "erased from the table and marked closed before its close callback fires", "the gauge never under-counts") and C06 ("closing some
 * other session never redirects or silences them"), not from the code.  Shared: enforced in unit udp_close, assumed (replaced) at the
 * closeNow call sites of unit udp_send.
 *
 * A replaced call may destroy *s (frees clause): no clause below reads *s in the post-state (X4 "marked closed" is a separate, enforce-only
 * contract in udp_close/post.c).
 * Ghost keys GPK / GSID / GFD are arbitrary: every clause holds for every peer key, session id and descriptor. */
#ifndef CLOSENOW_CONTRACT_H
#define CLOSENOW_CONTRACT_H

#define CN_SID0   __CPROVER_old(s->id)
#define CN_FD0    __CPROVER_old(s->fd)
#define CN_CLIENT (__CPROVER_old(s->role) == Role_ClientConnected)
#define CN_CBSET  (__CPROVER_old(self->_cbs.onClose.set))

#define CLOSENOW_PRE_AND_FRAME \
/* preconditions: facts of the call sites (process/Close, sendDo, writeClient, onClient, runGc all pass a pointer obtained from \
 * _sessions / a tag of a live session, on the I/O thread, holding no engine lock) and engine invariants (see unit.json trusted_base) */ \
__CPROVER_requires(IORA_TRUE && __CPROVER_is_fresh(self, sizeof(*self)) && __CPROVER_is_fresh(s, sizeof(*s)) && !s->closed) \
__CPROVER_requires(IORA_NO_LOCK_HELD(self)) \
/* OWN  the table owns s under its id */ \
__CPROVER_requires(s->id == GSID ==> (self->_sessions.has && self->_sessions.val == s)) \
/* INVa an index entry points at a session that is in the table */ \
__CPROVER_requires((self->_peerIndex.has && self->_peerIndex.val == GSID) ==> self->_sessions.has) \
/* INVb an index entry k -> id belongs to a listener-side session whose own key is k */ \
__CPROVER_requires((self->_peerIndex.has && self->_peerIndex.val == s->id) ==> (s->pkey == GPK && s->role == Role_ServerPeer)) \
/* GAUGE an open session is counted */ \
__CPROVER_requires(self->_atomicStats.sessionsCurrent >= 1) \
__CPROVER_requires(G_closeCb_calls < IORA_SAT && G_close_calls < IORA_SAT && G_delEpoll_calls < IORA_SAT) \
__CPROVER_assigns(s->closed, self->_peerIndex, self->_sessions.has, self->_tags, \
                  self->_atomicStats.closed, self->_atomicStats.sessionsCurrent, self->_cbMutex.held, self->_sessionRwMutex.held, \
                  G.cl) \
__CPROVER_frees(s)

void UdpEngine_closeNow_contract(UdpEngine *self, Session *s, TransportError why, iora_strid m, int iora_unused)
CLOSENOW_PRE_AND_FRAME
/* X1a exactly one close notification */ __CPROVER_ensures(G_closeCb_calls == __CPROVER_old(G_closeCb_calls) + (CN_CBSET ? 1u : 0u))
/* X1b carrying this session's id and the reason */ __CPROVER_ensures(CN_CBSET ==> (G_closeCb_sid == CN_SID0 && G_closeCb_why == why))
/* X2a erased from the table BEFORE the application was told */ __CPROVER_ensures(CN_CBSET ==> G_closeCb_erased)
/* X2b erased from the table */ __CPROVER_ensures(CN_SID0 == GSID ==> !self->_sessions.has)
/* X2c table frame: other ids keep their entry */ __CPROVER_ensures(CN_SID0 != GSID ==> self->_sessions.has == __CPROVER_old(self->_sessions.has))
/* X3a closed counter +1 exactly once */ __CPROVER_ensures(self->_atomicStats.closed == __CPROVER_old(self->_atomicStats.closed) + 1)
/* X3b gauge -1 exactly once, never below zero */ __CPROVER_ensures(self->_atomicStats.sessionsCurrent == __CPROVER_old(self->_atomicStats.sessionsCurrent) - 1)
/* U1 peer-index FRAME: an entry that maps to ANOTHER session is left alone (C06: closing some other session never redirects) */ __CPROVER_ensures((__CPROVER_old(self->_peerIndex.has) && __CPROVER_old(self->_peerIndex.val) != CN_SID0) ==> (self->_peerIndex.has && self->_peerIndex.val == __CPROVER_old(self->_peerIndex.val)))
/* U1b peer-index frame: no entry appears */ __CPROVER_ensures(!__CPROVER_old(self->_peerIndex.has) ==> !self->_peerIndex.has)
/* U2 the index entry of THIS session is removed (nothing is routed to a closed session) */ __CPROVER_ensures((__CPROVER_old(self->_peerIndex.has) && __CPROVER_old(self->_peerIndex.val) == CN_SID0) ==> !self->_peerIndex.has)
/* I1 invariant INVa preserved */ __CPROVER_ensures((self->_peerIndex.has && self->_peerIndex.val == GSID) ==> self->_sessions.has)
/* F1a connected client socket closed exactly once */ __CPROVER_ensures(CN_CLIENT ==> (G_close_calls == __CPROVER_old(G_close_calls) + 1 && G_close_fd == CN_FD0))
/* F1b unregistered from epoll exactly once, before the close */ __CPROVER_ensures(CN_CLIENT ==> (G_delEpoll_calls == __CPROVER_old(G_delEpoll_calls) + 1 && G_delEpoll_fd == CN_FD0 && G_delEpoll_closes_before == __CPROVER_old(G_close_calls)))
/* F1c its tag erased, no other tag touched */ __CPROVER_ensures(CN_CLIENT ==> (CN_FD0 == GFD ? !self->_tags.has : self->_tags.has == __CPROVER_old(self->_tags.has)))
/* F2 listener-side session: the shared listener socket is neither closed nor unregistered (C06: never silences the others) */ __CPROVER_ensures(!CN_CLIENT ==> (G_close_calls == __CPROVER_old(G_close_calls) && G_delEpoll_calls == __CPROVER_old(G_delEpoll_calls) && self->_tags.has == __CPROVER_old(self->_tags.has)))
/* L1 every lock released; the application callback ran with no engine lock held */ __CPROVER_ensures(IORA_NO_LOCK_HELD(self) && (CN_CBSET ==> !G_closeCb_locked))
;
#endif
