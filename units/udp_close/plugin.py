"""Unit-local extraction plugin shared by the UdpEngine units (udp_close, udp_send, udp_recv): RAII scope exit of lock guards (R11).

`std::lock_guard<std::mutex> g(_cbMutex);` / `std::unique_lock<std::shared_mutex> wl(_sessionRwMutex);` are rewritten by declared rules into
`IORA_LOCK_GUARD(g, self->_cbMutex);`.  C has no destructors, so this hook makes the scope exit explicit: the statement
`IORA_UNLOCK_GUARD(g, self->_cbMutex);` is inserted immediately before the `}` that closes the block in which the guard was declared.
The engine only uses guards in small nested blocks (`{ guard; one statement; }`).  A guard whose scope contains a jump
(`return`, `break`, `continue`, `goto`) or that is declared at function level is outside the subset (extraction break, exit 2).
Nothing else is added, removed or reordered."""
from vt.lexer import Tok, match_close
from vt.x2c import ExtractionBreak


def hook_before_loops(t, rw):
    out = list(t)
    i = 0
    n = 0
    while i < len(out):
        x = out[i]
        if x.kind == 'id' and x.text == 'IORA_LOCK_GUARD' and i + 1 < len(out) and out[i + 1].text == '(':
            rp = match_close(out, i + 1)
            args = out[i + 2:rp]
            name = args[0].text
            # closing brace of the enclosing block
            depth = 0
            j = rp
            close = None
            while j < len(out):
                y = out[j]
                if y.kind not in ('str', 'chr', 'expr'):
                    if y.text == '{':
                        depth += 1
                    elif y.text == '}':
                        if depth == 0:
                            close = j
                            break
                        depth -= 1
                    elif y.kind == 'id' and y.text in ('return', 'break', 'continue', 'goto'):
                        raise ExtractionBreak(f"{rw.prefix}: jump `{y.text}` inside the scope of lock guard `{name}` (line {y.line}) is outside the subset")
                j += 1
            if close is None:
                raise ExtractionBreak(f"{rw.prefix}: lock guard `{name}` declared at function level is outside the subset")
            L = out[close].line
            ins = [Tok('id', 'IORA_UNLOCK_GUARD', L, final=True), Tok('op', '(', L)]
            for a in args:
                ins.append(Tok(a.kind, a.text, L, ctype=a.ctype, final=True))
            ins += [Tok('op', ')', L), Tok('op', ';', L)]
            out[close:close] = ins
            n += 1
        i += 1
    if n:
        rw.R.fire('R11 scope exit', n)
    return out
