/* type environment for unit udp_close: the UdpEngine records, witness maps, callback/syscall stubs are shared by the three UDP units */
#include "iora_udp.h"
