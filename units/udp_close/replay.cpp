// REPLAY adapter for unit udp_close: runs the REAL UdpEngine::closeNow (private, reached with -fno-access-control) on the scenario the
// verifier found, and evaluates the contract clauses natively.  Part 1: engine constructed WITHOUT start(), sessions inserted by hand.
// Part 2 (only when the input asks for it with `API 1`, or no scenario is given): the same defect through the PUBLIC API on loopback
// sockets (listener, raw peer socket, connectViaListener, close) - the user-visible consequence of finding U1.
#include "iora/network/detail/udp_engine.hpp"
#include "replay_io.h"
#include <arpa/inet.h>
#include <sys/socket.h>
#include <thread>
using namespace iora::network;
using namespace std::chrono_literals;

static bool g_failed = false;
// a failed clause is reported and remembered; the other part of the scenario still runs, the process exits 1 at the end
#define FAIL(msg) do { printf("REPLAY-FAIL: %s\n", std::string(msg).c_str()); fflush(stdout); g_failed = true; return 1; } while (0)

static int by_hand(std::map<std::string, std::string> &in)
{
  const bool idxHas = replay_io::u64(in["IDX_HAS"]) != 0, client = replay_io::u64(in["ROLE"]) != 0;
  const bool pkeyIsK = replay_io::u64(in["PKEY_IS_K"]) != 0, closed = replay_io::u64(in["CLOSED"]) != 0;
  const SessionId sid = replay_io::u64(in["SID"]), idxVal = replay_io::u64(in["IDX_VAL"]);
  TransportConfig cfg{};
  UdpEngine eng{cfg};
  int closeCalls = 0; SessionId closeSid = 0; bool erasedAtCb = false;
  detail::EngineBase::Callbacks cbs{};
  cbs.onClose = [&](SessionId s, const TransportErrorInfo &) { closeCalls++; closeSid = s; erasedAtCb = eng._sessions.count(s) == 0; };
  eng.setCallbacks(cbs);
  const std::string K = "192.0.2.1:4000";
  auto mk = [&](SessionId id, bool cl, const std::string &pkey) {
    auto s = std::make_unique<UdpEngine::Session>();
    s->id = id; s->role = cl ? Role::ClientConnected : Role::ServerPeer; s->pkey = pkey;
    s->fd = cl ? ::socket(AF_INET, SOCK_DGRAM, 0) : 100;      // a listener-side session shares the listener's descriptor: must never be closed
    UdpEngine::Session *raw = s.get();
    eng._sessions.emplace(id, std::move(s)); eng._atomicStats.sessionsCurrent++;
    return raw; };
  UdpEngine::Session *b = mk(sid, client, pkeyIsK ? K : "198.51.100.9:9");
  b->closed = closed;
  if (idxHas) { eng._peerIndex[K] = idxVal; if (idxVal != sid) mk(idxVal, false, K); }     // the session that owns the index entry
  const auto closed0 = eng._atomicStats.closed.load(); const auto cur0 = eng._atomicStats.sessionsCurrent.load();
  printf("scenario: _peerIndex[K]%s%llu, closeNow(session %llu, %s, pkey %s K%s)\n", idxHas ? " = " : " absent; ", (unsigned long long)idxVal,
         (unsigned long long)sid, client ? "ClientConnected" : "ServerPeer", pkeyIsK ? "==" : "!=", closed ? ", already closed" : "");
  eng.closeNow(b, TransportError::Unknown, "replay", 0);
  if (closed) {
    if (closeCalls != 0 || eng._atomicStats.closed.load() != closed0 || eng._peerIndex.count(K) != (idxHas ? 1u : 0u)) FAIL("idempotence: closing a closed session had an effect");
    replay_io::ok("closed session: nothing happened");
    return 0;
  }
  if (closeCalls != 1 || closeSid != sid) FAIL("X1 not exactly one close callback with the session id");
  if (!erasedAtCb || eng._sessions.count(sid)) FAIL("X2 session still in the table at/after the callback");
  if (eng._atomicStats.closed.load() != closed0 + 1 || eng._atomicStats.sessionsCurrent.load() != cur0 - 1) FAIL("X3 counters");
  if (idxHas && idxVal == sid && eng._peerIndex.count(K)) FAIL("U2 own index entry not removed");
  if (idxHas && idxVal != sid) {
    auto it = eng._peerIndex.find(K);
    if (it == eng._peerIndex.end())
      FAIL("U1 peer-index frame: closing session " + std::to_string(sid) + " ERASED _peerIndex[K] which maps to the OPEN session " +
                      std::to_string(idxVal) + " - the next datagram from K opens a new session instead of arriving on " + std::to_string(idxVal));
    if (it->second != idxVal) FAIL("U1 peer-index frame: entry re-pointed");
  }
  if (!idxHas && eng._peerIndex.count(K)) FAIL("U1b an index entry appeared");
  replay_io::ok("contract clauses hold on this scenario");
  return 0;
}

static int via_public_api()
{
  std::mutex mx; std::vector<std::string> log; std::vector<SessionId> accepts, connects, closes; std::vector<std::pair<SessionId, std::string>> datas;
  TransportConfig cfg{};
  UdpEngine eng{cfg};       // declared after the logs: its destructor (stop -> shutdownDrain) still fires close callbacks
  detail::EngineBase::Callbacks cbs{};
  cbs.onAccept = [&](SessionId s, const TransportAddress &) { std::lock_guard<std::mutex> g(mx); accepts.push_back(s); log.push_back("accept " + std::to_string(s)); };
  cbs.onConnect = [&](SessionId s, const TransportAddress &) { std::lock_guard<std::mutex> g(mx); connects.push_back(s); log.push_back("connect " + std::to_string(s)); };
  cbs.onData = [&](SessionId s, iora::core::BufferView bv, std::chrono::steady_clock::time_point) { std::lock_guard<std::mutex> g(mx);
    datas.emplace_back(s, std::string((const char *)bv.data(), bv.size())); log.push_back("data " + std::to_string(s) + " '" + datas.back().second + "'"); };
  cbs.onClose = [&](SessionId s, const TransportErrorInfo &) { std::lock_guard<std::mutex> g(mx); closes.push_back(s); log.push_back("close " + std::to_string(s)); };
  eng.setCallbacks(cbs);
  if (!eng.start().isOk()) { replay_io::ok("public-API scenario skipped: engine did not start in this sandbox"); return 0; }
  auto lr = eng.addListener("127.0.0.1", 0, TlsMode::None);
  if (!lr.isOk()) { replay_io::ok("public-API scenario skipped: cannot bind a loopback UDP socket"); return 0; }
  ListenerId lid = lr.value();
  std::uint16_t lport = eng.getListenerAddress(lid).port;
  int p = ::socket(AF_INET, SOCK_DGRAM, 0);
  sockaddr_in me{}; me.sin_family = AF_INET; me.sin_addr.s_addr = htonl(INADDR_LOOPBACK); me.sin_port = 0;
  ::bind(p, (sockaddr *)&me, sizeof(me)); socklen_t ml = sizeof(me); ::getsockname(p, (sockaddr *)&me, &ml);
  sockaddr_in to{}; to.sin_family = AF_INET; to.sin_addr.s_addr = htonl(INADDR_LOOPBACK); to.sin_port = htons(lport);
  auto wait = [&](auto pred) { for (int i = 0; i < 300; i++) { { std::lock_guard<std::mutex> g(mx); if (pred()) return true; } std::this_thread::sleep_for(10ms); } return false; };
  ::sendto(p, "one", 3, 0, (sockaddr *)&to, sizeof(to));
  if (!wait([&] { return datas.size() == 1; })) FAIL("API: first datagram not delivered");
  SessionId A = datas[0].first;
  auto cr = eng.connectViaListener(lid, "127.0.0.1", ntohs(me.sin_port));       // second session for the SAME peer address
  if (!wait([&] { return connects.size() == 1; })) FAIL("API: connectViaListener did not complete");
  SessionId B = cr.value();
  eng.close(B);                                                                 // close the OTHER session
  if (!wait([&] { return closes.size() == 1; })) FAIL("API: close(B) not notified");
  ::sendto(p, "two", 3, 0, (sockaddr *)&to, sizeof(to));                         // same peer, session A is still open
  wait([&] { return datas.size() == 2; });
  { std::lock_guard<std::mutex> g(mx); printf("event log (A=%llu, B=%llu):", (unsigned long long)A, (unsigned long long)B); for (auto &l : log) printf(" [%s]", l.c_str()); printf("\n"); }
  ::close(p);
  eng.stop();
  std::lock_guard<std::mutex> g(mx);
  if (datas.size() != 2) FAIL("API: second datagram not delivered at all");
  if (accepts.size() != 1 || datas[1].first != A)
    FAIL("C06 violated through the public API: after close(B) the peer's next datagram was announced as a NEW session " + std::to_string(datas[1].first) +
                    " (accepts: " + std::to_string(accepts.size()) + ") although session " + std::to_string(A) + " for that peer is still open");
  replay_io::ok("public API: datagram after close(B) arrived on the open session A, no new accept");
  return 0;
}

int main(int argc, char **argv)
{
  std::map<std::string, std::string> in;
  if (argc > 1) in = replay_io::load(argv[1]);
  if (in.count("SID")) by_hand(in);
  if (!in.count("SID") || in.count("API")) via_public_api();
  return g_failed ? 1 : 0;
}
