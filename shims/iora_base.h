/* Common prelude for every extracted unit (DESIGN.md 2.2).
 * Inline ghost bodies: executable C with __CPROVER_assert for the library's preconditions.
 * Under IORA_NATIVE the same API compiles to plain C (assertions abort) for differential runs. */
#ifndef IORA_BASE_H
#define IORA_BASE_H
#include <stddef.h>
#include <stdint.h>
#include <stdbool.h>
#include <string.h>
#include <stdlib.h>

#ifdef IORA_NATIVE
#include <stdio.h>
#define IORA_ASSERT(c, msg) do { if (!(c)) { fprintf(stderr, "shim precondition violated: %s\n", msg); abort(); } } while (0)
#define IORA_ASSUME(c) do { } while (0)
/* differential run (tools/diffrun.py): the extracted TU is compiled by gcc; CBMC primitives that shims use inside IORA_ASSERT
 * conditions get native meanings (object identity is not checkable natively: true) */
#define __CPROVER_same_object(a, b) 1
#define __CPROVER_POINTER_OFFSET(p) ((size_t)(uintptr_t)(p))      /* only compared within one object */
#define __CPROVER_POINTER_OBJECT(p) ((size_t)0)
#define __CPROVER_r_ok(p, n) 1
#define __CPROVER_w_ok(p, n) 1
#define __CPROVER_rw_ok(p, n) 1
#define __CPROVER_assume(c) ((void)0)
#define __CPROVER_assert(c, msg) IORA_ASSERT(c, msg)
/* contract clauses on declarations in pre.h / shim headers vanish: `T f_contract(args) __CPROVER_requires(..) ..;` is a plain prototype */
#define __CPROVER_requires(...)
#define __CPROVER_ensures(...)
#define __CPROVER_assigns(...)
#define __CPROVER_frees(...)
#else
#define IORA_ASSERT(c, msg) __CPROVER_assert((c), msg)
#define IORA_ASSUME(c) __CPROVER_assume(c)
#endif

/* R12: `while(true)` becomes `while(IORA_TRUE)`; every contract requires IORA_TRUE */
_Bool IORA_TRUE;
#define IORA_NPOS ((size_t)-1)
#define IORA_MIN(a, b) ((a) < (b) ? (a) : (b))
#define IORA_MAX(a, b) ((a) < (b) ? (b) : (a))
#define IORA_ADDR(x) (&(x))
/* loop contracts are wrapped so that the bounded SEARCH build (no loop contracts, plain unwinding) can drop them */
#if defined(IORA_NO_LOOP_CONTRACTS) || defined(IORA_NATIVE)
#define IORA_LC(...)
#else
#define IORA_LC(...) __VA_ARGS__
#endif
#define IORA_LIMIT_size_t_max ((size_t)-1)
#define IORA_LIMIT_uint64_t_max ((uint64_t)-1)
#define IORA_LIMIT_uint32_t_max ((uint32_t)-1)
#define IORA_LIMIT_uint16_t_max ((uint16_t)-1)
#define IORA_LIMIT_int_max (2147483647)
#define IORA_LIMIT_int64_t_max ((int64_t)0x7fffffffffffffffLL)

/* vacuity canaries: must FAIL in every run (a canary that succeeds means the code under it is unreachable
 * under the contract's precondition / loop invariant, i.e. the proof is vacuous) */
#if defined(IORA_NATIVE) || !defined(IORA_CANARIES)
/* ((void)0), not do{}while(0): a degenerate loop inside a loop body makes the non-DFCC `--apply-loop-contracts` see an inner loop without contract */
#define IORA_CANARY_LOOP(msg) ((void)0)
#define IORA_CANARY(msg) ((void)0)
#else
#define IORA_CANARY_LOOP(msg) __CPROVER_assert(0, "canary: " msg)
#define IORA_CANARY(msg) __CPROVER_assert(0, "canary: " msg)
#endif

/* exceptions (R8) */
int iora_exc;
#define EXC_NONE 0
#define IORA_CATCH_ENTER() (iora_exc_caught = iora_exc, iora_exc = EXC_NONE)
#define IORA_RETHROW() (iora_exc = iora_exc_caught)      /* `throw;` inside a handler */
int iora_exc_caught;

/* nondeterminism */
#ifndef IORA_NATIVE
size_t nondet_size_t(void);
_Bool nondet_bool(void);
int nondet_int(void);
uint8_t nondet_u8(void);
uint64_t nondet_u64(void);
int64_t nondet_i64(void);

/* SEARCH harness inputs: explicit nondet assignments so that the values show up in the trace */
#define IORA_NONDET_BYTES(arr, n) do { for (unsigned iora_i = 0; iora_i < (n); iora_i++) (arr)[iora_i] = nondet_u8(); } while (0)
#endif

static inline int iora_isdigit(int c) { return c >= 48 && c <= 57; }
static inline int iora_isxdigit(int c) { return (c >= 48 && c <= 57) || (c >= 65 && c <= 70) || (c >= 97 && c <= 102); }
static inline int iora_isspace(int c) { return c == 32 || (c >= 9 && c <= 13); }
static inline int iora_isalpha(int c) { return (c >= 65 && c <= 90) || (c >= 97 && c <= 122); }
static inline int iora_isalnum(int c) { return iora_isalpha(c) || iora_isdigit(c); }
static inline int iora_tolower(int c) { return (c >= 65 && c <= 90) ? c + 32 : c; }
static inline int iora_toupper(int c) { return (c >= 97 && c <= 122) ? c - 32 : c; }
static inline int iora_iscntrl(int c) { return (c >= 0 && c < 32) || c == 127; }
static inline int iora_isprint(int c) { return c >= 32 && c < 127; }

/* ---- input views: real memory (p,n), made symbolic by the contract with __CPROVER_is_fresh ---- */
typedef struct { const uint8_t *p; size_t n; } iora_bv;      /* core::BufferView / const std::vector<uint8_t>& */
static inline size_t iora_bv_size(const iora_bv *b) { return b->n; }
static inline bool iora_bv_empty(const iora_bv *b) { return b->n == 0; }
static inline const uint8_t *iora_bv_data(const iora_bv *b) { return b->p; }
static inline const uint8_t *iora_bv_at(const iora_bv *b, size_t i) { IORA_ASSERT(i < b->n, "BufferView/vector operator[] index in range"); return &b->p[i]; }
static inline uint16_t iora_bv_readU16BE(const iora_bv *b, size_t off) { IORA_ASSERT(off <= b->n && b->n - off >= 2, "readU16BE in range");
  return (uint16_t)(((uint16_t)b->p[off] << 8) | b->p[off + 1]); }
static inline uint64_t iora_bv_readU64BE(const iora_bv *b, size_t off) { IORA_ASSERT(off <= b->n && b->n - off >= 8, "readU64BE in range");
  return ((uint64_t)b->p[off] << 56) | ((uint64_t)b->p[off + 1] << 48) | ((uint64_t)b->p[off + 2] << 40) | ((uint64_t)b->p[off + 3] << 32)
       | ((uint64_t)b->p[off + 4] << 24) | ((uint64_t)b->p[off + 5] << 16) | ((uint64_t)b->p[off + 6] << 8) | (uint64_t)b->p[off + 7]; }

typedef struct { const char *p; size_t n; } iora_sv;         /* const std::string& / std::string_view (input) */
static inline size_t iora_sv_size(const iora_sv *b) { return b->n; }
static inline bool iora_sv_empty(const iora_sv *b) { return b->n == 0; }
static inline const char *iora_sv_data(const iora_sv *b) { return b->p; }
static inline const char *iora_sv_at(const iora_sv *b, size_t i) { IORA_ASSERT(i < b->n, "string operator[] index in range"); return &b->p[i]; }
/* std::string::operator[](size()) is allowed and yields NUL: the const std::string& flavour */
typedef iora_sv iora_cstr;

/* ---- real output vector with storage (payload of a parsed frame): resize is an allocation of symbolic size ---- */
typedef struct { uint8_t *p; size_t n; } iora_vec;
static inline size_t iora_vec_size(const iora_vec *v) { return v->n; }
static inline bool iora_vec_empty(const iora_vec *v) { return v->n == 0; }
static inline uint8_t *iora_vec_data(iora_vec *v) { return v->p; }
static inline uint8_t *iora_vec_at(iora_vec *v, size_t i) { IORA_ASSERT(i < v->n, "vector operator[] index in range"); return &v->p[i]; }
static inline void iora_vec_clear(iora_vec *v) { v->n = 0; }
size_t G_alloc_cap;          /* "cannot over-allocate": a unit binds this to the amount of input that justifies an allocation */
#if defined(IORA_NATIVE) || defined(IORA_SEARCH)
static inline void iora_vec_resize(iora_vec *v, size_t n) { IORA_ASSERT(n <= G_alloc_cap, "resize within justified bound (Check requires clause of contract contract::iora_vec_resize)"); v->p = (uint8_t *)malloc(n ? n : 1); v->n = n; }
#else
void iora_vec_resize(iora_vec *v, size_t n)     /* contract-replaced: allocation of symbolic size */
  __CPROVER_requires(n <= G_alloc_cap)           /* the caller must justify the amount it allocates */
  __CPROVER_assigns(v->p, v->n)
  __CPROVER_ensures(v->n == n && __CPROVER_is_fresh(v->p, n));
#endif

/* ---- output accumulators: length + witness byte at one arbitrary ghost index GK ---- */
size_t GK;
typedef struct { size_t n; uint8_t gk; } iora_ovec;          /* std::vector<uint8_t> the code only appends to */
#define iora_ovec_DEFAULT ((iora_ovec){0, 0})
static inline size_t iora_ovec_size(const iora_ovec *v) { return v->n; }
static inline bool iora_ovec_empty(const iora_ovec *v) { return v->n == 0; }
static inline void iora_ovec_reserve(iora_ovec *v, size_t n) { (void)v; (void)n; }
static inline void iora_ovec_clear(iora_ovec *v) { v->n = 0; }
static inline void iora_ovec_push_back(iora_ovec *v, uint8_t b) { if (v->n == GK) v->gk = b; IORA_ASSERT(v->n < (size_t)-1, "vector growth"); v->n++; }
static inline void iora_ovec_append(iora_ovec *v, const uint8_t *p, size_t len) { if (GK >= v->n && GK - v->n < len) v->gk = p[GK - v->n]; IORA_ASSERT(len <= (size_t)-1 - v->n, "vector growth"); v->n += len; }

typedef struct { size_t n; char gk; } iora_ostr;             /* std::string the code only appends to */
#define iora_ostr_DEFAULT ((iora_ostr){0, 0})
static inline size_t iora_ostr_size(const iora_ostr *v) { return v->n; }
static inline size_t iora_ostr_length(const iora_ostr *v) { return v->n; }
static inline bool iora_ostr_empty(const iora_ostr *v) { return v->n == 0; }
static inline void iora_ostr_reserve(iora_ostr *v, size_t n) { (void)v; (void)n; }
static inline void iora_ostr_clear(iora_ostr *v) { v->n = 0; }
static inline void iora_ostr_push_back(iora_ostr *v, char b) { if (v->n == GK) v->gk = b; IORA_ASSERT(v->n < (size_t)-1, "string growth"); v->n++; }
static inline void iora_ostr_append(iora_ostr *v, const char *p, size_t len) { if (GK >= v->n && GK - v->n < len) v->gk = p[GK - v->n]; IORA_ASSERT(len <= (size_t)-1 - v->n, "string growth"); v->n += len; }
static inline void iora_ostr_append_n(iora_ostr *v, size_t cnt, char c) { if (GK >= v->n && GK - v->n < cnt) v->gk = c; v->n += cnt; }
static inline void iora_ostr_pop_back(iora_ostr *v) { IORA_ASSERT(v->n > 0, "pop_back on empty string"); v->n--; }

#endif
