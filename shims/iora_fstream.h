/* std::ofstream / std::ifstream as ENVIRONMENT stubs (trusted base, DESIGN 2.2 / 5 C11).
 *
 * iora_ofs  output stream = ghost byte sink.  Trusted: the stream forwards the bytes it accepted, in order, to the file.
 *           State: number of bytes accepted since the contract's origin (n), the byte at ONE arbitrary ghost index GW
 *           (a clause proved for arbitrary GW holds for every byte), fail bit, and where the last flush() happened.
 *           Every write may fail (any prefix accepted, fail bit set); flush may fail (fail bit set, nothing promised).
 *           A stream with the fail bit set accepts nothing more (iostream semantics).
 * iora_ifs  input stream over an ARBITRARY byte sequence (p,n) with a read position: read() either delivers exactly k bytes
 *           or (short read) delivers the rest, sets the fail bit and returns false; peek() is EOF at the end / after a failure.
 *           Ghost: stream position recorded at every peek() (the KVStore replay loop peeks exactly at record boundaries).
 */
#ifndef IORA_FSTREAM_H
#define IORA_FSTREAM_H

size_t GW;                      /* witness index into the output stream (absolute, in accepted bytes) */
typedef struct {
  bool open; bool failed;
  size_t n;                     /* bytes accepted so far */
  uint8_t gw;                   /* the byte at index GW, meaningful once n > GW */
  size_t flushed;               /* bytes known to have reached the OS: n at the last SUCCESSFUL flush */
  size_t flush_at;              /* n at the last flush() call (successful or not) */
  unsigned nflush;              /* number of flush() calls */
} iora_ofs;

static inline bool iora_ofs_is_open(const iora_ofs *s) { return s->open; }
static inline bool iora_ofs_good(const iora_ofs *s) { return !s->failed; }
static inline bool iora_ofs_fail(const iora_ofs *s) { return s->failed; }

/* how many of len bytes does the environment accept? all of them, or a strict prefix (then the stream fails) */
static inline size_t iora_ofs_accept(iora_ofs *s, size_t len)
{
  if (!s->open) s->failed = true;
  if (s->failed) return 0;
#ifndef IORA_NATIVE
  if (nondet_bool()) { size_t k = nondet_size_t(); IORA_ASSUME(k < len); s->failed = true; return k; }
#endif
  return len;
}
/* write(p, len) from real memory; result = !fail() (the C++ code tests the returned stream in a boolean context) */
static inline bool iora_ofs_write(iora_ofs *s, const void *p, size_t len)
{
  IORA_ASSERT(len == 0 || __CPROVER_r_ok(p, len), "ofstream::write: source range readable");
  size_t k = iora_ofs_accept(s, len);
  if (GW >= s->n && GW - s->n < k) s->gw = ((const uint8_t *)p)[GW - s->n];
  IORA_ASSERT(k <= (size_t)-1 - s->n, "ghost stream length");
  s->n += k;
  return !s->failed;
}
/* write(acc.data(), len) from an output accumulator (length + witness byte at GK): the byte landing on GW is known
 * only when GW - n == GK; any other alignment yields an unknown byte (sound: contracts bind GK to GW accordingly) */
static inline bool iora_ofs_write_acc(iora_ofs *s, const iora_ovec *v, size_t len)
{
  IORA_ASSERT(len <= v->n, "ofstream::write: source range inside the vector");
  size_t k = iora_ofs_accept(s, len);
  if (GW >= s->n && GW - s->n < k) {
#ifndef IORA_NATIVE
    s->gw = (GW - s->n == GK) ? v->gk : nondet_u8();
#else
    s->gw = v->gk;
#endif
  }
  IORA_ASSERT(k <= (size_t)-1 - s->n, "ghost stream length");
  s->n += k;
  return !s->failed;
}
static inline void iora_ofs_flush(iora_ofs *s)
{
  s->nflush++; s->flush_at = s->n;
  if (!s->open || s->failed) return;
#ifndef IORA_NATIVE
  if (nondet_bool()) { s->failed = true; return; }      /* ENOSPC / EIO at the write(2) behind the buffer */
#endif
  s->flushed = s->n;
}

/* ------------------------------------------------------------------ std::ifstream over an arbitrary byte sequence */
#ifndef EOF
#define EOF (-1)
#endif
#define IORA_IOS_binary 4
#define IORA_IOS_app 1
#define IORA_IOS_trunc 16
/* one ghost file: exists + its bytes (arbitrary, made symbolic by the contract/harness) */
typedef struct { bool exists; const uint8_t *p; size_t n; } iora_gfile;
typedef struct { bool open; bool fail; bool eof; const uint8_t *p; size_t n; size_t pos; } iora_ifs;
/* ghost: stream position at the last peek() of a good stream (the KVStore replay loop peeks exactly at record boundaries) */
size_t G_ifs_boundary;
static inline iora_ifs iora_ifs_open(const iora_gfile *f)
{ iora_ifs s; s.open = f->exists; s.fail = !f->exists; s.eof = false; s.p = f->p; s.n = f->exists ? f->n : 0; s.pos = 0; return s; }
static inline bool iora_ifs_is_open(const iora_ifs *s) { return s->open; }
static inline bool iora_ifs_fail(const iora_ifs *s) { return s->fail; }
static inline bool iora_ifs_eof(const iora_ifs *s) { return s->eof; }
static inline void iora_ifs_close(iora_ifs *s) { if (!s->open) s->fail = true; s->open = false; }
/* peek(): EOF on a failed stream (the sentry fails) and at the end of the file (sets eofbit, not failbit) */
static inline int iora_ifs_peek(iora_ifs *s)
{
  if (!s->open || s->fail) return EOF;
  G_ifs_boundary = s->pos;
  if (s->pos >= s->n) { s->eof = true; return EOF; }
  return s->p[s->pos];
}
/* tellg(): -1 on a failed stream */
static inline int64_t iora_ifs_tellg(const iora_ifs *s) { return (!s->open || s->fail) ? (int64_t)-1 : (int64_t)s->pos; }
/* read(dst, k): delivers exactly k bytes, or (short read) the rest of the file and sets eofbit|failbit; result = !fail() */
static inline bool iora_ifs_read(iora_ifs *s, void *dst, size_t k)
{
  IORA_ASSERT(k == 0 || __CPROVER_w_ok(dst, k), "ifstream::read: destination holds k bytes");
  if (!s->open || s->fail) { s->fail = true; return false; }
  IORA_ASSERT(s->pos <= s->n, "ghost: read position inside the file");
  size_t avail = s->n - s->pos;
  if (k <= avail) { if (k > 0) memcpy(dst, s->p + s->pos, k); s->pos += k; return true; }
  if (avail > 0) memcpy(dst, s->p + s->pos, avail);
  s->pos = s->n; s->fail = true; s->eof = true;
  return false;
}
#endif
