/* Type environment shared by the C14 units (xml_cursor, xml_entities, xml_tags): C images of
 * iora::parsers::xml::{Options, Error, Attribute, Token, Parser} (include/iora/parsers/xml.hpp) and the
 * std::string_view / std::vector / std::string shims these units need beyond iora_base.h.
 * Included from each unit's pre.h, i.e. AFTER the extracted `enum TokenKind`.
 * All shims are inline ghost bodies; library preconditions are IORA_ASSERTs (checked at every use). */
#ifndef IORA_XML_H
#define IORA_XML_H

/* ---------- std::string_view beyond iora_base.h (prefix xsv_: unit-local methods.json maps the methods) ---------- */
#define iora_sv_DEFAULT ((iora_sv){0, 0})                       /* std::string_view{} : data()==nullptr, size()==0 */
#define IORA_SV_LIT(s) ((iora_sv){(s), sizeof(s) - 1})          /* implicit string_view(const char*) of a string LITERAL */

/* string_view::substr(pos, len): throws std::out_of_range when pos > size(); the length is clamped */
static inline iora_sv xsv_substr(const iora_sv *s, size_t pos, size_t len)
{
  IORA_ASSERT(pos <= s->n, "string_view::substr pos <= size() (else std::out_of_range)");
  iora_sv r; r.p = s->p + pos; r.n = len < s->n - pos ? len : s->n - pos; return r;
}
/* string_view::compare(pos, len, other) for SHORT `other` (<= 4 bytes, asserted): exact libstdc++ result sign.
 * traits::compare is memcmp, i.e. bytes compared as unsigned char; then the lengths. */
static inline int xsv_compare(const iora_sv *s, size_t pos, size_t len, iora_sv o)
{
  IORA_ASSERT(pos <= s->n, "string_view::compare pos <= size() (else std::out_of_range)");
  IORA_ASSERT(o.n <= 4, "shim domain: compare() against at most 4 bytes");
  size_t rlen = len < s->n - pos ? len : s->n - pos;
  size_t m = rlen < o.n ? rlen : o.n;
  if (m > 0 && (uint8_t)s->p[pos] != (uint8_t)o.p[0]) return (uint8_t)s->p[pos] < (uint8_t)o.p[0] ? -1 : 1;
  if (m > 1 && (uint8_t)s->p[pos + 1] != (uint8_t)o.p[1]) return (uint8_t)s->p[pos + 1] < (uint8_t)o.p[1] ? -1 : 1;
  if (m > 2 && (uint8_t)s->p[pos + 2] != (uint8_t)o.p[2]) return (uint8_t)s->p[pos + 2] < (uint8_t)o.p[2] ? -1 : 1;
  if (m > 3 && (uint8_t)s->p[pos + 3] != (uint8_t)o.p[3]) return (uint8_t)s->p[pos + 3] < (uint8_t)o.p[3] ? -1 : 1;
  return rlen < o.n ? -1 : (rlen > o.n ? 1 : 0);
}

/* ---------- the parser's data types ---------- */
typedef struct { bool permissive; bool namespaceProcessing; size_t maxDepth; size_t maxAttrsPerElement; size_t maxNameLength;
                 size_t maxTextSpan; size_t maxTotalTokens; } Options;
typedef struct { size_t offset; size_t line; size_t column; const char *message; /* std::string: only assigned, never read */ } Error;
typedef struct { iora_sv name; iora_sv value; } Attribute;

/* std::vector<Attribute> the code only clears and appends to: length + witness element at the arbitrary ghost index GA */
size_t GA;
typedef struct { size_t n; Attribute gk; } iora_attrvec;
#define iora_attrvec_DEFAULT ((iora_attrvec){0, {{0, 0}, {0, 0}}})
static inline size_t iora_attrvec_size(const iora_attrvec *v) { return v->n; }
static inline void iora_attrvec_clear(iora_attrvec *v) { v->n = 0; }
static inline void iora_attrvec_reserve(iora_attrvec *v, size_t n) { (void)v; (void)n; }
static inline void iora_attrvec_push_back(iora_attrvec *v, Attribute a) { if (v->n == GA) v->gk = a; IORA_ASSERT(v->n < (size_t)-1, "vector growth"); v->n++; }

typedef struct { TokenKind kind; iora_sv name; iora_sv text; iora_attrvec attributes; bool selfClosing; size_t depth; size_t offset;
                 size_t line; size_t column; } Token;
/* default member initialisers of struct Token (xml.hpp): kind{Invalid}, selfClosing{false}, depth{0}, offset{0}, line{1}, column{1} */
#define Token_DEFAULT ((Token){ .kind = TokenKind_Invalid, .name = {0, 0}, .text = {0, 0}, .attributes = {0, {{0, 0}, {0, 0}}}, \
                                .selfClosing = false, .depth = 0, .offset = 0, .line = 1, .column = 1 })

/* std::vector<std::string> _elementStack: depth + witness entry at the arbitrary ghost level GL.
 * Every pushed string is a copy of an input slice and the input is immutable, so an entry IS (content-wise) that slice.
 * Levels other than GL answer nondeterministically (sound for "for every level ..." clauses). */
size_t GL;
typedef struct { size_t n; size_t wit_off; size_t wit_n; /* entry GL == input[wit_off, wit_off+wit_n), meaningful iff n > GL */ } iora_strstack;
#define iora_strstack_DEFAULT ((iora_strstack){0, 0, 0})

typedef struct { iora_sv _input; Options _opt; size_t _cur; size_t _line; size_t _col; size_t _depth; Token _token; bool _hasError;
                 Error _error; bool _emittedEof; size_t _producedTokens; iora_strstack _elementStack; } Parser;

/* ---------- specification vocabulary shared by the three units ---------- */
#define XML_IN_BITS 40                                          /* inputs of fewer than 2^40 bytes (size bound, trusted_base) */
/* x < 2^k written as "the high bits are zero": logically the same bound, but it gives the SAT back end unit facts and makes
 * the 64-bit comparison chains of these proofs 3-4x cheaper (measured) */
#define XML_SMALL(x, k) (((x) >> (k)) == 0)
/* cursor invariant: established by the constructor (_cur=0,_line=1,_col=1) and preserved by get(): one byte per step, so
 * the line/column counters are bounded by the bytes consumed and can never wrap */
#define XML_CUR_INV(s) ((s)->_cur <= (s)->_input.n && XML_SMALL((s)->_cur, XML_IN_BITS) && (s)->_line <= (s)->_cur + 1 && (s)->_col <= (s)->_cur + 1 \
                        && XML_SMALL((s)->_line, XML_IN_BITS + 1) && XML_SMALL((s)->_col, XML_IN_BITS + 1))
/* GS is an arbitrary ghost position of the input ("for every position GS ..." without a quantifier) and GSC the input byte at GS.
 * GSC is DEFINED by the precondition (the input is immutable, so the definition stays true); clauses and loop invariants then
 * speak about GSC instead of re-reading input[GS], which keeps the number of symbolic array reads small (measured: 123 s -> 6 s). */
size_t GS; char GSC;
/* GOC = the input byte under the cursor on entry (defined by the precondition when the cursor is not at the end).
 * XML_GHOST_INLINE (unit xml_tags, where the cursor-layer contracts REPLACE calls): per-call definitional ghosts are substituted by
 * their definitions, which is the same contract (the enforcing proof covers every ghost value satisfying the definition, and
 * exactly one value does). */
#ifdef XML_GHOST_INLINE
#define GOC XML_AT(self, OC)            /* OC = cursor on entry (units/xml_cursor/contracts.h) */
#define GOC_PRE XML_AT(self, self->_cur)
#define XML_GOC_DEF(s) 1
#else
char GOC;
#define GOC_PRE GOC
#define XML_GOC_DEF(s) ((s)->_cur < (s)->_input.n ==> GOC == (s)->_input.p[(s)->_cur])
#endif
/* memory part of the precondition: fresh objects in a contract; in the assert/havoc/assume stubs of unit xml_next (XML_STUB_MODE, plain
 * harness, no contract context) the same facts as validity predicates */
#ifdef XML_STUB_MODE
#define XML_MEM_SELF(s) __CPROVER_rw_ok(s, sizeof(*(s)))
#define XML_MEM_IN(s) __CPROVER_r_ok((s)->_input.p, (s)->_input.n)
#else
#define XML_MEM_SELF(s) __CPROVER_is_fresh(s, sizeof(*(s)))
#define XML_MEM_IN(s) __CPROVER_is_fresh((s)->_input.p, (s)->_input.n)
#endif
#define XML_PRE(s) (IORA_TRUE && XML_MEM_SELF(s) && XML_SMALL((s)->_input.n, XML_IN_BITS) \
                    && XML_MEM_IN(s) && XML_CUR_INV(s) && (GS < (s)->_input.n ==> GSC == (s)->_input.p[GS]) \
                    && XML_GOC_DEF(s))
#define XML_AT(s, i) ((s)->_input.p[i])
/* slice containment, exact form: view v is the input range [off, off+len) */
#define XML_SLICE_IS(s, v, off, len) (__CPROVER_same_object((v).p, (s)->_input.p) && (v).p == (s)->_input.p + (off) && (v).n == (len) \
                                      && (off) <= (s)->_input.n && (len) <= (s)->_input.n - (off))
/* slice containment, general form: v is empty (reports no byte) or lies inside the input */
#define XML_SLICE_IN(s, v) ((v).n == 0 || (__CPROVER_same_object((v).p, (s)->_input.p) \
   && __CPROVER_POINTER_OFFSET((v).p) >= __CPROVER_POINTER_OFFSET((s)->_input.p) \
   && (v).n <= (s)->_input.n && (size_t)(__CPROVER_POINTER_OFFSET((v).p) - __CPROVER_POINTER_OFFSET((s)->_input.p)) <= (s)->_input.n - (v).n))
#define XML_IS_SPACE(c) ((c) == (char)32 || (c) == (char)9 || (c) == (char)13 || (c) == (char)10)
#define XML_IS_NAMESTART(c) ((c) == (char)58 || (c) == (char)95 || ((c) >= (char)65 && (c) <= (char)90) || ((c) >= (char)97 && (c) <= (char)122))
#define XML_IS_NAMECHAR(c) (XML_IS_NAMESTART(c) || (c) == (char)45 || (c) == (char)46 || ((c) >= (char)48 && (c) <= (char)57))

#endif
