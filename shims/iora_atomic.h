/* R10: std::atomic<T> members under SEQUENTIAL semantics.
 *   x.load(mo)        -> IORA_ALOAD(x, G_ld.x, mo)         plain read
 *   x.store(v, mo)    -> IORA_ASTORE(x, G_st.x, v, mo)     plain write
 *   x.exchange(v, mo) -> IORA_AXCHG_BOOL(x, v, mo)         read-then-write, one step
 * Atomicity and inter-thread ordering are NOT modelled: nothing proved through these macros decides data-race freedom under the
 * C++ memory model. The memory-order argument is kept in the extracted text (visible in .work/<unit>/unit.c) and recorded in the
 * unit's ghost records G_ld / G_st (one int field per atomic member: the order of the LAST load / store in this operation), so that
 * a unit can state an ordering DISCIPLINE ("a slot is written only after an acquire load of _tail") as an ordinary obligation. */
#ifndef IORA_ATOMIC_H
#define IORA_ATOMIC_H
#define IORA_MO_NONE (-1)
#define IORA_MO_memory_order_relaxed 0
#define IORA_MO_memory_order_consume 1
#define IORA_MO_memory_order_acquire 2
#define IORA_MO_memory_order_release 3
#define IORA_MO_memory_order_acq_rel 4
#define IORA_MO_memory_order_seq_cst 5
#define IORA_MO_IS_ACQUIRE(o) ((o) == 2 || (o) == 4 || (o) == 5)
#define IORA_MO_IS_RELEASE(o) ((o) == 3 || (o) == 4 || (o) == 5)
#define IORA_ALOAD(x, g, mo) ((g) = IORA_MO_##mo, (x))
#define IORA_ASTORE(x, g, v, mo) ((g) = IORA_MO_##mo, (x) = (v))
static inline bool iora_axchg_bool(bool *x, bool v) { bool o = *x; *x = v; return o; }
#define IORA_AXCHG_BOOL(x, v, mo) iora_axchg_bool(&(x), (v))
#endif
