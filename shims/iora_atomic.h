/* R10: std::atomic<T> members under SEQUENTIAL semantics.
 *   x.load(mo)        -> IORA_ALOAD(x, mo)        plain read
 *   x.store(v, mo)    -> IORA_ASTORE(x, v, mo)    plain write
 *   x.exchange(v, mo) -> IORA_AXCHG_BOOL(x, v, mo)  read-then-write, one step
 * The memory-order argument is kept in the extracted text (so it is visible in .work/<unit>/unit.c and in evidence)
 * and then DISCARDED: atomicity and inter-thread ordering are not modelled. Nothing proved through these macros says
 * anything about data races under the C++ memory model. */
#ifndef IORA_ATOMIC_H
#define IORA_ATOMIC_H
#define IORA_ALOAD(x, mo) (x)
#define IORA_ASTORE(x, v, mo) ((x) = (v))
static inline bool iora_axchg_bool(bool *x, bool v) { bool o = *x; *x = v; return o; }
#define IORA_AXCHG_BOOL(x, v, mo) iora_axchg_bool(&(x), (v))
#endif
