/* Contracts of the record-level DNS parsers, shared by the DNS units (property C19; RFC 1035 3.2.1, 4.1.1, 4.1.2):
 *   unit dns_rdata PROVES them (proofs validate, rdname, header_c, question, rr5, rr4);
 *   units dns_typed / dns_parse USE them (--replace-call-with-contract).  One text, included by all.
 * Needs: iora_dns.h, iora_dns_contracts.h, iora_dns_types.h and the extracted enums. */
#ifndef IORA_DNS_RECORD_CONTRACTS_H
#define IORA_DNS_RECORD_CONTRACTS_H

/* ------------------------------------------------------------------------------------------------------------------
 * validateRdataSecurity */
#define VR_PRE \
__CPROVER_requires(IORA_TRUE && iora_exc == EXC_NONE && __CPROVER_is_fresh(rr, sizeof(*rr))) \
__CPROVER_requires(rr->rdata.n <= 65535 && __CPROVER_is_fresh(rr->rdata.p, rr->rdata.n))   /* RDLENGTH is a 16-bit field */ \
__CPROVER_assigns(iora_exc)

/* proof "validate": every read inside RDATA (built-in checks + the operator[] precondition of the view shim), termination */
void validate_contract(const DnsResourceRecord *rr)
VR_PRE
/* VE */ __CPROVER_ensures(iora_exc == EXC_NONE || iora_exc == EXC_DnsParseException)
;

/* ------------------------------------------------------------------------------------------------------------------
 * decodeNameFromRdata: RDATA [rdataStart, rdataStart + rdataSize) lies inside the message (parseResourceRecord clause R3);
 * rdata is the record's own copy of those bytes. */
#define RD_PTR ((size_t)(U16BE(rdata, rdataOffset) & 0x3FFF))
#define RD_IS_PTR (rdataSize >= 2 && rdataOffset < rdataSize - 1 && (rdata[rdataOffset] & 0xC0) == 0xC0)
#define RDNAME_REQUIRES \
__CPROVER_requires(IORA_TRUE && iora_exc == EXC_NONE && messageSize <= DN_MAX_MSG && __CPROVER_is_fresh(messageData, messageSize)) \
__CPROVER_requires(rdataSize <= 65535 && __CPROVER_is_fresh(rdata, rdataSize) && rdataStart <= messageSize && rdataSize <= messageSize - rdataStart) \
__CPROVER_requires(__CPROVER_is_fresh(name, sizeof(*name)) && G_msg_size == messageSize)
#define RDNAME_ENSURES \
/* N1 the returned RDATA offset: unchanged when there is nothing to decode, else inside RDATA (one past it only when a \
 *    pointer octet is the last RDATA octet: the callers compare before they read) */ \
__CPROVER_ensures(iora_exc == EXC_NONE ==> (__CPROVER_return_value == rdataOffset || __CPROVER_return_value <= rdataSize + 1)) \
__CPROVER_ensures((iora_exc == EXC_NONE && rdataOffset < rdataSize) ==> __CPROVER_return_value > rdataOffset) \
/* N2 a compression pointer at the start of the name: out-of-range target is an error; otherwise exactly 2 octets consumed */ \
__CPROVER_ensures((RD_IS_PTR && RD_PTR >= messageSize) ==> iora_exc != EXC_NONE) \
__CPROVER_ensures((RD_IS_PTR && iora_exc == EXC_NONE) ==> __CPROVER_return_value == rdataOffset + 2) \
/* N5 */ \
__CPROVER_ensures(iora_exc == EXC_NONE ==> name->n <= RFC_MAX_TEXT) \
/* NE */ \
__CPROVER_ensures(iora_exc == EXC_NONE || iora_exc == EXC_DnsParseException)

/* the form PROVED in unit dns_rdata (proof `rdname`; decodeName inside it is replaced by decodeName_use_contract, hence the ghosts) */
size_t decodeNameFromRdata_contract(const uint8_t *messageData, size_t messageSize, size_t rdataStart, size_t rdataOffset,
                                    const uint8_t *rdata, size_t rdataSize, iora_ostr *name)
RDNAME_REQUIRES
__CPROVER_assigns(iora_exc, *name, G_name_end, G_name_start)
RDNAME_ENSURES
/* N3 the name is decoded in the context of the whole message: at the pointer target, or at the absolute position of the RDATA offset */
__CPROVER_ensures((RD_IS_PTR && iora_exc == EXC_NONE) ==> G_name_start == RD_PTR)
__CPROVER_ensures((!RD_IS_PTR && rdataOffset < rdataSize && iora_exc == EXC_NONE) ==> G_name_start == rdataStart + rdataOffset)
/* N4 a literal name that ends inside RDATA: the returned RDATA offset is where it ended */
__CPROVER_ensures((!RD_IS_PTR && rdataOffset < rdataSize && iora_exc == EXC_NONE && G_name_end >= rdataStart && G_name_end - rdataStart <= rdataSize) ==>
   __CPROVER_return_value == G_name_end - rdataStart)
;

/* the form USED by the typed record parsers (unit dns_typed): the same clause macros plus verification-only ghosts that remember
 * the RDATA offset the last call was asked to decode at, its result, and how many calls were made */
size_t G_rd_off, G_rd_ret; unsigned G_rd_calls;
size_t decodeNameFromRdata_use_contract(const uint8_t *messageData, size_t messageSize, size_t rdataStart, size_t rdataOffset,
                                        const uint8_t *rdata, size_t rdataSize, iora_ostr *name)
RDNAME_REQUIRES
__CPROVER_requires(G_rd_calls < 1000)
__CPROVER_assigns(iora_exc, *name, G_rd_off, G_rd_ret, G_rd_calls)
RDNAME_ENSURES
__CPROVER_ensures(G_rd_off == rdataOffset && G_rd_ret == __CPROVER_return_value && G_rd_calls == __CPROVER_old(G_rd_calls) + 1)
;

/* ------------------------------------------------------------------------------------------------------------------
 * parseHeader (RFC 1035 4.1.1), contract form (proved in dns_rdata, proof `header_c`; used by unit dns_parse) */
#define HDR_FLAGS(d, o) U16BE(d, (o) + 2)
size_t parseHeader_contract(const uint8_t *data, size_t offset, size_t size, DnsHeader *header)
__CPROVER_requires(IORA_TRUE && iora_exc == EXC_NONE && size <= DN_MAX_MSG && offset <= size && __CPROVER_is_fresh(data, size))
__CPROVER_requires(__CPROVER_is_fresh(header, sizeof(*header)))
__CPROVER_assigns(iora_exc, *header)
/* H1 */ __CPROVER_ensures((size < 12 || offset > size - 12) ==> iora_exc == EXC_DnsParseException)
/* H2 */ __CPROVER_ensures((size >= 12 && offset <= size - 12) ==> iora_exc == EXC_NONE)
__CPROVER_ensures(iora_exc == EXC_NONE ==> __CPROVER_return_value == offset + 12)
/* H3 */ __CPROVER_ensures(iora_exc == EXC_NONE ==> header->id == U16BE(data, offset))
/* H4 one clause per flag field (conjunctions in one clause are slow) */
__CPROVER_ensures(iora_exc == EXC_NONE ==> header->qr == ((HDR_FLAGS(data, offset) >> 15) & 1))
__CPROVER_ensures(iora_exc == EXC_NONE ==> header->opcode == ((HDR_FLAGS(data, offset) >> 11) & 15))
__CPROVER_ensures(iora_exc == EXC_NONE ==> header->aa == ((HDR_FLAGS(data, offset) >> 10) & 1))
__CPROVER_ensures(iora_exc == EXC_NONE ==> header->tc == ((HDR_FLAGS(data, offset) >> 9) & 1))
__CPROVER_ensures(iora_exc == EXC_NONE ==> header->rd == ((HDR_FLAGS(data, offset) >> 8) & 1))
__CPROVER_ensures(iora_exc == EXC_NONE ==> header->ra == ((HDR_FLAGS(data, offset) >> 7) & 1))
__CPROVER_ensures(iora_exc == EXC_NONE ==> header->z == ((HDR_FLAGS(data, offset) >> 4) & 7))
__CPROVER_ensures(iora_exc == EXC_NONE ==> header->rcode == (HDR_FLAGS(data, offset) & 15))
/* H5 */ __CPROVER_ensures(iora_exc == EXC_NONE ==> header->qdcount == U16BE(data, offset + 4))
__CPROVER_ensures(iora_exc == EXC_NONE ==> header->ancount == U16BE(data, offset + 6))
__CPROVER_ensures(iora_exc == EXC_NONE ==> header->nscount == U16BE(data, offset + 8))
__CPROVER_ensures(iora_exc == EXC_NONE ==> header->arcount == U16BE(data, offset + 10))
;

/* ------------------------------------------------------------------------------------------------------------------
 * parseQuestion (decodeName replaced by its contract) */
size_t parseQuestion_contract(const uint8_t *data, size_t offset, size_t size, DnsQuestion *question)
__CPROVER_requires(IORA_TRUE && iora_exc == EXC_NONE && size <= DN_MAX_MSG && offset <= size && __CPROVER_is_fresh(data, size))
__CPROVER_requires(__CPROVER_is_fresh(question, sizeof(*question)) && G_msg_size == size)
__CPROVER_assigns(iora_exc, *question, G_name_end, G_name_start)
/* Q1 QNAME (ending at G_name_end) is followed by exactly QTYPE(2) QCLASS(2); the question ends inside the message */
__CPROVER_ensures(iora_exc == EXC_NONE ==> (G_name_start == offset && G_name_end > offset && G_name_end <= size && __CPROVER_return_value == G_name_end + 4 && __CPROVER_return_value <= size))
/* Q2 QTYPE and QCLASS are the big-endian 16-bit fields right after the name */
__CPROVER_ensures(iora_exc == EXC_NONE ==> question->qtype == U16BE(data, G_name_end))
__CPROVER_ensures(iora_exc == EXC_NONE ==> question->qclass == U16BE(data, G_name_end + 2))
/* Q3 */ __CPROVER_ensures(iora_exc == EXC_NONE ==> question->qname.n <= RFC_MAX_TEXT)
/* Q4 */ __CPROVER_ensures(iora_exc == EXC_NONE || iora_exc == EXC_DnsParseException)
/* Q5 a question cut off before the end of its fixed fields is a reported error */
__CPROVER_ensures((size < 5 || offset > size - 5) ==> iora_exc != EXC_NONE)
;

/* ------------------------------------------------------------------------------------------------------------------
 * parseResourceRecord (decodeName and validateRdataSecurity replaced by their contracts). RFC 1035 3.2.1:
 * NAME | TYPE(2) | CLASS(2) | TTL(4) | RDLENGTH(2) | RDATA(RDLENGTH). */
/* one ensures clause per field (measured: the four fields in ONE clause > 300 s, as four clauses 13 s) */
#define RR_FIELDS(rr) \
/* R2a TYPE     */ __CPROVER_ensures(iora_exc == EXC_NONE ==> (rr)->type == U16BE(data, G_name_end)) \
/* R2b CLASS    */ __CPROVER_ensures(iora_exc == EXC_NONE ==> (rr)->cls == U16BE(data, G_name_end + 2)) \
/* R2c TTL      */ __CPROVER_ensures(iora_exc == EXC_NONE ==> (rr)->ttl == U32BE(data, G_name_end + 4)) \
/* R2d RDLENGTH */ __CPROVER_ensures(iora_exc == EXC_NONE ==> (rr)->rdlength == U16BE(data, G_name_end + 8))
#define RR_PRE \
__CPROVER_requires(IORA_TRUE && iora_exc == EXC_NONE && size <= DN_MAX_MSG && offset <= size && __CPROVER_is_fresh(data, size)) \
__CPROVER_requires(__CPROVER_is_fresh(rr, sizeof(*rr)) && G_msg_size == size)

size_t parseResourceRecord5_contract(const uint8_t *data, size_t offset, size_t size, DnsResourceRecord *rr, size_t *rdataOffset)
RR_PRE
__CPROVER_requires(__CPROVER_is_fresh(rdataOffset, sizeof(*rdataOffset)))
__CPROVER_assigns(iora_exc, *rr, *rdataOffset, G_name_end, G_name_start)
/* R1 NAME (ending at G_name_end) is followed by the 10 fixed octets, then RDATA; the record ends inside the message exactly
 *    RDLENGTH octets after the start of RDATA */
__CPROVER_ensures(iora_exc == EXC_NONE ==> (G_name_start == offset && G_name_end > offset && G_name_end <= size && *rdataOffset == G_name_end + 10 && *rdataOffset <= size && __CPROVER_return_value == *rdataOffset + rr->rdlength && __CPROVER_return_value <= size))
/* R2 fixed fields bit-exact */
RR_FIELDS(rr)
/* R3 RDATA is exactly the RDLENGTH octets at rdataOffset (so [rdataOffset, rdataOffset + rdata.size()) lies inside the message) */
__CPROVER_ensures(iora_exc == EXC_NONE ==> (rr->rdata.n == rr->rdlength && rr->rdata.p == data + *rdataOffset))
/* R4 */ __CPROVER_ensures(iora_exc == EXC_NONE ==> rr->name.n <= RFC_MAX_TEXT)
/* R5 */ __CPROVER_ensures(iora_exc == EXC_NONE || iora_exc == EXC_DnsParseException)
/* R6 a record cut off before the end of its fixed fields is a reported error */
__CPROVER_ensures((size < 11 || offset > size - 11) ==> iora_exc != EXC_NONE)
;

size_t parseResourceRecord4_contract(const uint8_t *data, size_t offset, size_t size, DnsResourceRecord *rr)
RR_PRE
__CPROVER_assigns(iora_exc, *rr, G_name_end, G_name_start)
__CPROVER_ensures(iora_exc == EXC_NONE ==> (G_name_start == offset && G_name_end > offset && G_name_end <= size && __CPROVER_return_value == G_name_end + 10 + rr->rdlength && __CPROVER_return_value <= size))
RR_FIELDS(rr)
__CPROVER_ensures(iora_exc == EXC_NONE ==> (rr->rdata.n == rr->rdlength && rr->rdata.p == data + (G_name_end + 10)))
__CPROVER_ensures(iora_exc == EXC_NONE ==> rr->name.n <= RFC_MAX_TEXT)
__CPROVER_ensures(iora_exc == EXC_NONE || iora_exc == EXC_DnsParseException)
__CPROVER_ensures((size < 11 || offset > size - 11) ==> iora_exc != EXC_NONE)
;

/* ------------------------------------------------------------------------------------------------------------------
 * CORE forms for use in DnsMessage::parse: a SUBSET of the proved clauses above (same text; dropping ensures clauses of a proved
 * contract is sound). parse needs offsets, frames and error types, not the field values - and every assumed field equality costs
 * solver time at each of its three call sites (measured: 60 s per record loop with the full contract). */
size_t parseHeader_core_contract(const uint8_t *data, size_t offset, size_t size, DnsHeader *header)
__CPROVER_requires(IORA_TRUE && iora_exc == EXC_NONE && size <= DN_MAX_MSG && offset <= size && __CPROVER_is_fresh(data, size))
__CPROVER_requires(__CPROVER_is_fresh(header, sizeof(*header)))
__CPROVER_assigns(iora_exc, *header)
/* H1 */ __CPROVER_ensures((size < 12 || offset > size - 12) ==> iora_exc == EXC_DnsParseException)
/* H2 */ __CPROVER_ensures((size >= 12 && offset <= size - 12) ==> iora_exc == EXC_NONE)
__CPROVER_ensures(iora_exc == EXC_NONE ==> __CPROVER_return_value == offset + 12)
;
size_t parseQuestion_core_contract(const uint8_t *data, size_t offset, size_t size, DnsQuestion *question)
__CPROVER_requires(IORA_TRUE && iora_exc == EXC_NONE && size <= DN_MAX_MSG && offset <= size && __CPROVER_is_fresh(data, size))
__CPROVER_requires(__CPROVER_is_fresh(question, sizeof(*question)) && G_msg_size == size)
__CPROVER_assigns(iora_exc, *question, G_name_end, G_name_start)
/* Q1 */ __CPROVER_ensures(iora_exc == EXC_NONE ==> (G_name_start == offset && G_name_end > offset && G_name_end <= size && __CPROVER_return_value == G_name_end + 4 && __CPROVER_return_value <= size))
/* Q4 */ __CPROVER_ensures(iora_exc == EXC_NONE || iora_exc == EXC_DnsParseException)
;
size_t parseResourceRecord5_core_contract(const uint8_t *data, size_t offset, size_t size, DnsResourceRecord *rr, size_t *rdataOffset)
RR_PRE
__CPROVER_requires(__CPROVER_is_fresh(rdataOffset, sizeof(*rdataOffset)))
__CPROVER_assigns(iora_exc, *rr, *rdataOffset, G_name_end, G_name_start)
/* R1 */ __CPROVER_ensures(iora_exc == EXC_NONE ==> (G_name_start == offset && G_name_end > offset && G_name_end <= size && *rdataOffset == G_name_end + 10 && *rdataOffset <= size && __CPROVER_return_value == *rdataOffset + rr->rdlength && __CPROVER_return_value <= size))
/* R3 */ __CPROVER_ensures(iora_exc == EXC_NONE ==> (rr->rdata.n == rr->rdlength && rr->rdata.p == data + *rdataOffset))
/* R5 */ __CPROVER_ensures(iora_exc == EXC_NONE || iora_exc == EXC_DnsParseException)
;

/* ------------------------------------------------------------------------------------------------------------------
 * parseTypedRecord (proved in unit dns_typed, proof `dispatch`; used by unit dns_parse) */
#define GREW(list, T) \
__CPROVER_ensures(rr->type == (T) ==> (result->list.n == __CPROVER_old(result->list.n) || result->list.n == __CPROVER_old(result->list.n) + 1)) \
__CPROVER_ensures(rr->type != (T) ==> result->list.n == __CPROVER_old(result->list.n))
#define TYPED_LISTS_ASSIGN result->a_records, result->aaaa_records, result->srv_records, result->naptr_records, result->cname_records, \
                           result->mx_records, result->txt_records, result->ptr_records, result->soa_records
#define TYPED_LISTS_SMALL (result->a_records.n < 1000000 && result->aaaa_records.n < 1000000 && result->srv_records.n < 1000000 && result->naptr_records.n < 1000000 \
   && result->cname_records.n < 1000000 && result->mx_records.n < 1000000 && result->txt_records.n < 1000000 && result->ptr_records.n < 1000000 && result->soa_records.n < 1000000)
/* RDATA_OK: how the record's RDATA bytes are given. Proved with RDATA as a separate fresh object (the record's own copy); used
 * in DnsMessage::parse where the model lets rr.rdata alias the message bytes it was copied from (readable is all that is needed:
 * the assigns clause proves that the typed parsers write neither RDATA nor the message). */
#define TYPEDREC_REQUIRES(RDATA_OK) \
__CPROVER_requires(IORA_TRUE && iora_exc == EXC_NONE && __CPROVER_is_fresh(rr, sizeof(*rr))) \
__CPROVER_requires(rr->rdata.n <= 65535 && RDATA_OK(rr->rdata.p, rr->rdata.n)) \
__CPROVER_requires(messageSize <= DN_MAX_MSG && __CPROVER_is_fresh(messageData, messageSize)) \
__CPROVER_requires(rdataOffset <= messageSize && rr->rdata.n <= messageSize - rdataOffset) \
__CPROVER_requires(__CPROVER_is_fresh(result, sizeof(*result)) && G_msg_size == messageSize && TYPED_LISTS_SMALL)
#define TYPEDREC_ENSURES \
/* TD1 an error in typed decoding never leaves parseTypedRecord: the raw record stays in its section, the message is not lost */ \
__CPROVER_ensures(iora_exc == EXC_NONE) \
/* TD2 only the typed collection of rr.type can grow, by at most one record; header and raw sections are outside the frame */ \
GREW(a_records, DnsType_A) GREW(aaaa_records, DnsType_AAAA) GREW(srv_records, DnsType_SRV) GREW(naptr_records, DnsType_NAPTR) \
GREW(cname_records, DnsType_CNAME) GREW(mx_records, DnsType_MX) GREW(txt_records, DnsType_TXT) GREW(ptr_records, DnsType_PTR) GREW(soa_records, DnsType_SOA) \
/* TD3 a TXT record always yields a typed record (parseTxtRecord never raises) */ \
__CPROVER_ensures(rr->type == DnsType_TXT ==> result->txt_records.n == __CPROVER_old(result->txt_records.n) + 1)
#define TYPEDREC_ASSIGNS __CPROVER_assigns(iora_exc, iora_exc_caught, G_rd_off, G_rd_ret, G_rd_calls, TYPED_LISTS_ASSIGN)

/* the form PROVED (ghost call counter starts at 0 so that the typed parsers' clauses "decoded once, at offset k" can be stated) */
void parseTypedRecord_contract(const DnsResourceRecord *rr, DnsResult *result, const uint8_t *messageData, size_t messageSize, size_t rdataOffset)
TYPEDREC_REQUIRES(__CPROVER_is_fresh)
__CPROVER_requires(G_rd_calls == 0)
TYPEDREC_ASSIGNS
TYPEDREC_ENSURES
;
/* the form USED: same clauses; RDATA only has to be readable; no condition on the verification-only counter G_rd_calls (no clause
 * of TYPEDREC_ENSURES mentions it and no extracted code reads it) - trusted step, listed in trusted_base */
void parseTypedRecord_use_contract(const DnsResourceRecord *rr, DnsResult *result, const uint8_t *messageData, size_t messageSize, size_t rdataOffset)
TYPEDREC_REQUIRES(__CPROVER_r_ok)
TYPEDREC_ASSIGNS
TYPEDREC_ENSURES
;
#endif
