/* Type environment, witness-key maps, ghost queues, callback and syscall stubs for the UdpEngine units
 * (udp_close, udp_send, udp_recv; properties C06 and the UDP side of C02).  Included from the units' pre.h (after the
 * extracted enums Role / TransportError), NOT from shim_headers.  Requires iora_base.h and iora_monitor.h.
 *
 * Nothing in here is a copy of a function body of /repo: these are the *data types* the extracted text runs on (DESIGN 2.2)
 * and the environment (kernel, user callbacks).  Everything in this file is trusted base.
 *
 * Witness maps (iora_map1, DESIGN 2.2): an unordered_map is represented by its restriction to ONE arbitrary ghost key
 * (GPK for _peerIndex, GSID for _sessions, GFD for _tags, GLID for _listeners).  Operations on the ghost key are exact;
 * operations on any other key answer nondeterministically / optimistically (an object that exists and is valid).  A clause proved
 * for an arbitrary ghost key holds for every key: for every concrete run choose the ghosts equal to the keys that run touches. */
#ifndef IORA_UDP_H
#define IORA_UDP_H

typedef uint64_t SessionId;
typedef uint64_t ListenerId;
typedef uint64_t iora_strid;          /* std::string interned as an id: equal strings <=> equal ids (pkey, key(addr), messages) */
typedef int64_t MonoTime;             /* steady_clock time_point as a tick count */
typedef uint32_t socklen_t;
typedef struct { uint8_t b[128]; } sockaddr_storage;      /* sizeof(sockaddr_storage) == 128 on Linux; bytes are real memory */
typedef sockaddr_storage sockaddr;
#define sockaddr_storage_DEFAULT ((sockaddr_storage){{0}})
#ifndef iora_vec_DEFAULT
#define iora_vec_DEFAULT ((iora_vec){0, 0})
#endif
typedef uint64_t TransportAddress;    /* host/port pair interned (only passed on to callbacks) */

#define EAGAIN 11
#define EWOULDBLOCK 11
#define MSG_NOSIGNAL 0x4000
#define EPOLLIN 0x001u
#define EPOLLOUT 0x004u
#define EPOLLET (1u << 31)
int iora_errno;                       /* `errno` of the I/O thread */

/* ---- ghost keys ---- */
iora_strid GPK;      /* arbitrary peer key      (_peerIndex witness) */
SessionId GSID;      /* arbitrary session id    (_sessions witness) */
int GFD;             /* arbitrary descriptor    (_tags witness) */
ListenerId GLID;     /* arbitrary listener id   (_listeners witness) */
size_t GQ;           /* arbitrary logical index (write-queue witness) */
size_t GB;           /* arbitrary byte index into a socket address */

/* ---- ghost record of the environment ----
 * All ghost records live in ONE object (every global is an addressed object for CBMC, and DFCC's cost grows steeply with --object-bits,
 * measured); sub-structs are the units of the assigns clauses: G.cl (close path), G.ep (epoll interest), G.tx (send/sendto), G.rx (receive path). */
struct iora_udp_ghost {
  struct { unsigned closeCb_calls; SessionId closeCb_sid; bool closeCb_erased; bool closeCb_locked; TransportError closeCb_why;
           unsigned close_calls; int close_fd; unsigned delEpoll_calls; int delEpoll_fd; unsigned delEpoll_closes_before; unsigned closeCb_calls_w; /* callbacks for the witness id GSID */ bool erased_w, flag_w, locked_w; TransportError why_w; size_t closeCb_total; bool gfd_closed; /* close() was called on the witness descriptor GFD */ } cl;
  struct { unsigned modEpoll_calls; int modEpoll_fd; uint32_t modEpoll_ev; } ep;
  struct { size_t front_lo; size_t calls, ok, again, err; bool is_sendto; int fd; const uint8_t *p; int n; socklen_t tolen; uint8_t to_gb; int flags; int ret; int err_no;
           size_t w_calls; const uint8_t *w_p; int w_n; socklen_t w_tolen; uint8_t w_to_gb; } tx;
  struct { unsigned acceptCb_calls; SessionId acceptCb_sid; bool acceptCb_locked; unsigned dataCb_calls; SessionId dataCb_sid; const uint8_t *dataCb_p; size_t dataCb_n; bool dataCb_locked;
           unsigned errorCb_calls; unsigned acceptCb_datas_before; TransportAddress acceptCb_addr; uint8_t dataCb_byte_gk; bool dataCb_sess_ok; MonoTime dataCb_time;
           unsigned connectCb_calls; SessionId connectCb_sid; bool connectCb_locked; } rx;
  struct { MonoTime now_first; unsigned now_calls; } misc;
  struct { unsigned calls; int fd; uint8_t *buf; int buflen; int ret; size_t dgram_len; uint8_t byte_gk; socklen_t fromlen; uint8_t from_gb; iora_strid key; unsigned key_calls; bool key_of_source; uint64_t key_host; uint16_t key_port; } rc;
} G;
/* close callback */
#define G_closeCb_calls G.cl.closeCb_calls
#define G_closeCb_sid G.cl.closeCb_sid
#define G_closeCb_erased G.cl.closeCb_erased
#define G_closeCb_locked G.cl.closeCb_locked
#define G_closeCb_why G.cl.closeCb_why
/* descriptors */
#define G_close_calls G.cl.close_calls
#define G_close_fd G.cl.close_fd
#define G_delEpoll_calls G.cl.delEpoll_calls
#define G_delEpoll_fd G.cl.delEpoll_fd
#define G_delEpoll_closes_before G.cl.delEpoll_closes_before      /* close() calls seen when epoll DEL ran */
#define G_modEpoll_calls G.ep.modEpoll_calls
#define G_modEpoll_fd G.ep.modEpoll_fd
#define G_modEpoll_ev G.ep.modEpoll_ev
/* accept / data / error callbacks */
#define G_acceptCb_calls G.rx.acceptCb_calls
#define G_acceptCb_sid G.rx.acceptCb_sid
#define G_acceptCb_locked G.rx.acceptCb_locked
#define G_dataCb_calls G.rx.dataCb_calls
#define G_dataCb_sid G.rx.dataCb_sid
#define G_dataCb_p G.rx.dataCb_p
#define G_dataCb_n G.rx.dataCb_n
#define G_dataCb_locked G.rx.dataCb_locked
#define G_errorCb_calls G.rx.errorCb_calls
/* send / sendto: calls = ok + again + err (plain counters: bounded by the queue length in every contract); *_w_*: the call that carried the
 * queue element at the witness index GQ */
#define G_front_lo G.tx.front_lo          /* logical index of the element the most recent front() returned */
#define G_tx_calls G.tx.calls
#define G_tx_ok G.tx.ok
#define G_tx_again G.tx.again
#define G_tx_err G.tx.err
#define G_tx_is_sendto G.tx.is_sendto
#define G_tx_fd G.tx.fd
#define G_tx_p G.tx.p
#define G_tx_n G.tx.n
#define G_tx_tolen G.tx.tolen
#define G_tx_to_gb G.tx.to_gb
#define G_tx_flags G.tx.flags
#define G_tx_ret G.tx.ret
#define G_tx_errno G.tx.err_no
#define G_txw_calls G.tx.w_calls
#define G_txw_p G.tx.w_p
#define G_txw_n G.tx.w_n
#define G_txw_tolen G.tx.w_tolen
#define G_txw_to_gb G.tx.w_to_gb


/* ---- callbacks (R21): std::function members of EngineBase::Callbacks ---- */
typedef struct { bool set; } iora_cb_onAccept;
typedef struct { bool set; } iora_cb_onConnect;
typedef struct { bool set; } iora_cb_onData;
typedef struct { bool set; } iora_cb_onClose;
typedef struct { bool set; } iora_cb_onError;
#define iora_cb_onAccept_EMPTY ((iora_cb_onAccept){0})
#define iora_cb_onConnect_EMPTY ((iora_cb_onConnect){0})
#define iora_cb_onData_EMPTY ((iora_cb_onData){0})
#define iora_cb_onClose_EMPTY ((iora_cb_onClose){0})
#define iora_cb_onError_EMPTY ((iora_cb_onError){0})
typedef struct { iora_cb_onAccept onAccept; iora_cb_onConnect onConnect; iora_cb_onData onData; iora_cb_onClose onClose; iora_cb_onError onError; } Callbacks;

/* ---- write queues: std::deque<OutDg> / std::deque<ByteBuffer> as ghost sequences ----
 * the deque is the interval [lo, hi) of LOGICAL indices (hi = pushes so far, lo = pops so far); the element at the ONE arbitrary
 * logical index GQ is stored in `w`; any other element reads as an arbitrary value.  Unbounded length. */
typedef struct { sockaddr_storage to; socklen_t toLen; iora_vec payload; } OutDg;
#define OutDg_DEFAULT ((OutDg){ .to = {{0}}, .toLen = 0, .payload = {0, 0} })      /* default member initialisers of struct OutDg */
typedef struct { size_t lo, hi; OutDg w; OutDg other; } iora_dq_dg;
typedef struct { size_t lo, hi; iora_vec w; iora_vec other; } iora_dq_bb;
static inline size_t iora_dq_dg_size(const iora_dq_dg *d) { return d->hi - d->lo; }
static inline bool iora_dq_dg_empty(const iora_dq_dg *d) { return d->hi == d->lo; }
static inline void iora_dq_dg_emplace_back(iora_dq_dg *d, OutDg v)
{ IORA_ASSERT(d->hi < (size_t)-1, "ghost push counter does not wrap"); if (d->hi == GQ) d->w = v; d->hi++; }
static inline OutDg *iora_dq_dg_front(iora_dq_dg *d)
{ IORA_ASSERT(d->lo < d->hi, "deque::front() on a non-empty deque"); G_front_lo = d->lo; if (d->lo == GQ) return &d->w;
  /* any other element: arbitrary, within the element invariant that sendDo establishes for every element it queues (clause SD5: toLen <= 128, length <= INT_MAX) */
  OutDg nd; IORA_ASSUME(nd.toLen <= sizeof(sockaddr_storage) && nd.payload.n <= 0x7fffffff); d->other = nd; return &d->other; }
static inline void iora_dq_dg_pop_front(iora_dq_dg *d) { IORA_ASSERT(d->lo < d->hi, "deque::pop_front() on a non-empty deque"); d->lo++; }
static inline size_t iora_dq_bb_size(const iora_dq_bb *d) { return d->hi - d->lo; }
static inline bool iora_dq_bb_empty(const iora_dq_bb *d) { return d->hi == d->lo; }
static inline void iora_dq_bb_emplace_back(iora_dq_bb *d, iora_vec v)
{ IORA_ASSERT(d->hi < (size_t)-1, "ghost push counter does not wrap"); if (d->hi == GQ) d->w = v; d->hi++; }
static inline iora_vec *iora_dq_bb_front(iora_dq_bb *d)
{ IORA_ASSERT(d->lo < d->hi, "deque::front() on a non-empty deque"); G_front_lo = d->lo; if (d->lo == GQ) return &d->w;
  iora_vec nd; IORA_ASSUME(nd.n <= 0x7fffffff); d->other = nd; return &d->other; }
static inline void iora_dq_bb_pop_front(iora_dq_bb *d) { IORA_ASSERT(d->lo < d->hi, "deque::pop_front() on a non-empty deque"); d->lo++; }

/* ---- engine records ---- */
typedef struct { ListenerId id; int fd; iora_strid bind; iora_dq_dg wq; bool wantWrite; } Listener;
typedef struct Session { SessionId id; Role role; int fd; ListenerId owner; sockaddr_storage peer; socklen_t plen; iora_strid pkey;
  iora_dq_bb wq; bool wantWrite; bool closed; MonoTime created, lastActivity; bool connectPending; MonoTime connectStart; MonoTime lastWriteProgress; } Session;
/* default member initialisers of struct Session (udp_engine.hpp) */
#define Session_DEFAULT ((Session){ .id = 0, .role = Role_ServerPeer, .fd = -1, .owner = 0, .peer = {{0}}, .plen = 0, .pkey = 0, \
  .wq = {0}, .wantWrite = false, .closed = false, .created = 0, .lastActivity = 0, .connectPending = false, .connectStart = 0, .lastWriteProgress = 0 })
typedef struct { SessionId sid; iora_vec payload; } SendReq;
typedef struct { SessionId sid; ListenerId lid; iora_strid host; uint16_t port; } ViaReq;
/* chrono durations (idleTimeout, maxConnAge, connectTimeout, writeStallTimeout) and time points are tick counts of ONE common unit (unit conversion between
 * seconds/milliseconds/steady_clock ticks is not modelled) */
typedef struct { size_t ioReadChunk; size_t maxWriteQueue; bool closeOnBackpressure; bool useEdgeTriggered; size_t maxSessions;
  int64_t idleTimeout, maxConnAge, connectTimeout, writeStallTimeout; int soRcvBuf, soSndBuf; } TransportConfig;
typedef struct { uint64_t accepted, connected, closed, errors, bytesIn, bytesOut, backpressureCloses, gcRuns, gcClosedIdle, gcClosedAged; size_t sessionsCurrent, sessionsPeak; } AtomicStats;

/* ---- witness maps ---- */
typedef struct { bool has; SessionId val; } iora_map1_peer;                    /* _peerIndex restricted to GPK */
typedef struct { bool end; SessionId second; } iora_peer_it;
typedef struct { bool has; Session *val; Session *other; } iora_map1_sess;   /* _sessions restricted to GSID; `other`: a valid session standing for any other id */
typedef struct { bool end; Session *second; } iora_sess_it;
typedef struct { bool has; } iora_map1_tags;                                   /* _tags restricted to GFD */
typedef struct { bool has; Listener *val; Listener *other; } iora_map1_lst;   /* _listeners restricted to GLID */
typedef struct { bool end; Listener *second; } iora_lst_it;
#define iora_it_is_end(i) ((i).end)

static inline iora_peer_it iora_map1_peer_find(const iora_map1_peer *m, iora_strid k)
{ iora_peer_it it; if (k == GPK) { it.end = !m->has; it.second = m->val; }
  /* another key: present or not, mapping to some session OTHER than the witness session (the case "k maps to session GSID" is examined exactly under the
   * ghost choice GPK == k; the optimistic answer here keeps the witness state out of it) */
  else { it.end = nondet_bool(); it.second = nondet_u64(); IORA_ASSUME(it.second != GSID); } return it; }
static inline void iora_map1_peer_erase(iora_map1_peer *m, iora_strid k) { if (k == GPK) m->has = false; }
static inline void iora_map1_peer_emplace(iora_map1_peer *m, iora_strid k, SessionId v) { if (k == GPK && !m->has) { m->has = true; m->val = v; } }
/* operator[](k): a reference to the mapped value; a missing key is default-inserted (value 0).  `m[k] = v` is insert-OR-OVERWRITE. */
SessionId G_peer_scratch;
static inline SessionId *iora_map1_peer_index(iora_map1_peer *m, iora_strid k)
{ if (k == GPK) { if (!m->has) { m->has = true; m->val = 0; } return &m->val; } return &G_peer_scratch; }
/* try_emplace(k, v): like emplace, an existing entry is left untouched */
static inline void iora_map1_peer_try_emplace(iora_map1_peer *m, iora_strid k, SessionId v) { iora_map1_peer_emplace(m, k, v); }

/* LKS: the session table is mutated only with _sessionRwMutex held (udp_engine.hpp lock-ordering comment) */
#ifdef IORA_UDP_TABLE3
/* BOUNDED stand-in for code that ITERATES over _sessions (shutdownDrain, runGc): the whole table, at most IORA_TBL_N = 3 sessions, as real objects.
 * Keys are the sessions' own ids (precondition: distinct).  erase/clear destroy the objects (unique_ptr), so a later use is a pointer obligation. */
#define IORA_TBL_N 3
typedef struct { bool present[IORA_TBL_N]; Session *e[IORA_TBL_N]; } iora_tbl3;
typedef iora_tbl3 IORA_SESS_T;
#elif defined(IORA_UDP_ITERMAP)
/* UNBOUNDED table for code that ITERATES over _sessions: the witness-key map plus an iteration ghost.  The table has n entries (n arbitrary); iteration
 * visits positions 0..n-1; the witness session (id GSID), if present, sits at the arbitrary position gpos < n; every other position yields the scratch
 * object *other re-filled with arbitrary content (id != GSID).  Erasing while a range-for is running is not modelled (the code collects first). */
typedef struct { bool has; Session *val; Session *other; size_t n; size_t gpos; } iora_smapit;
typedef iora_smapit IORA_SESS_T;
#else
typedef iora_map1_sess IORA_SESS_T;
#endif
static inline bool iora_sess_wlock_held(const IORA_SESS_T *m);      /* the _sessionRwMutex of the engine that contains *m (defined below) */
#define IORA_SESS_GUARDED(m) IORA_ASSERT(iora_sess_wlock_held(m), "LKS _sessions mutated with _sessionRwMutex held")
static inline iora_sess_it iora_map1_sess_find(const iora_map1_sess *m, SessionId k)
{ iora_sess_it it; if (k == GSID) { it.end = !m->has; it.second = m->val; } else { it.end = nondet_bool(); it.second = m->other; } return it; }
/* R22: the map owns its sessions (unique_ptr): erase destroys the object, so any later use of it is a pointer obligation */
static inline void iora_map1_sess_erase(iora_map1_sess *m, SessionId k)
{ IORA_SESS_GUARDED(m); if (k == GSID && m->has) { m->has = false; free(m->val); } }      /* val is left dangling: `has` is the presence bit */
static inline void iora_map1_sess_emplace(iora_map1_sess *m, SessionId k, Session *s)
{ IORA_SESS_GUARDED(m);
  if (k == GSID) { IORA_ASSERT(!m->has, "ID1 a session id is inserted into _sessions at most once (ids are never reused)"); m->has = true; m->val = s; } }
/* operator[]: a reference to the mapped unique_ptr; a missing key is default-inserted as a NULL pointer */
static inline Session **iora_map1_sess_index(iora_map1_sess *m, SessionId k)
{ if (k == GSID) { if (!m->has) { m->has = true; m->val = NULL; } return &m->val; } return &m->other; }

static inline void iora_map1_tags_erase(iora_map1_tags *m, int fd) { if (fd == GFD) m->has = false; }

static inline iora_lst_it iora_map1_lst_find(const iora_map1_lst *m, ListenerId k)
{ iora_lst_it it; if (k == GLID) { it.end = !m->has; it.second = m->val; } else { it.end = nondet_bool(); it.second = m->other; } return it; }

#ifdef IORA_UDP_CMDQ
/* the command queue std::deque<Cmd> as a ghost sequence with the element at the arbitrary position GQ stored; CmdType is extracted from the header */
typedef struct { bool set; unsigned fulfilled; bool value; } iora_promise;      /* shared_ptr<promise<bool>>: set = non-null */
typedef struct { CmdType t; struct { SessionId sid; } c; struct { SessionId sid; ListenerId lid; } v; SessionId closeSid; iora_promise listenerReady; } Cmd;
typedef struct { size_t n; Cmd w; Cmd other; } iora_cmdq;
#define iora_cmdq_DEFAULT ((iora_cmdq){0})
static inline void iora_cmdq_swap_(iora_cmdq *a, iora_cmdq *b) { iora_cmdq t = *a; *a = *b; *b = t; }
#define iora_cmdq_swap(a, b) iora_cmdq_swap_((a), &(b))      /* deque::swap(other&) */
/* element j: the witness command at position GQ, otherwise an arbitrary command that does not carry the witness session id (ids are issued once) */
static inline Cmd *iora_cmdq_at(iora_cmdq *q, size_t j)
{ IORA_ASSERT(j < q->n, "deque iteration in range"); if (j == GQ) return &q->w;
  Cmd nd; nd.listenerReady.set = nondet_bool(); nd.listenerReady.fulfilled = 0; nd.listenerReady.value = 0;
  IORA_ASSUME(!(nd.t == CmdType_Connect && nd.c.sid == GSID) && !(nd.t == CmdType_Via && nd.v.sid == GSID)); q->other = nd; return &q->other; }
#define EXC_future_error 7
/* promise::set_value: fulfils the promise, or throws std::future_error (already satisfied / no state) */
static inline void iora_promise_set_value(iora_promise *p, bool v) { if (nondet_bool()) { iora_exc = EXC_future_error; return; } if (p->fulfilled < 1000u) p->fulfilled++; p->value = v; }
#define IORA_CMDQ_FIELDS iora_mutex _qmx; iora_cmdq _q; bool _qClosed; int _eventFd;
#else
#define IORA_CMDQ_FIELDS
#endif
typedef struct UdpEngine { IORA_CMDQ_FIELDS TransportConfig _config; AtomicStats _atomicStats; int _epollFd; iora_mutex _cbMutex; Callbacks _cbs; iora_mutex _sessionRwMutex;
  iora_map1_lst _listeners; IORA_SESS_T _sessions; iora_map1_peer _peerIndex; iora_map1_tags _tags; SessionId _nextSessionId; } UdpEngine;
/* R11 lock guards, sequential model.  `std::lock_guard<std::mutex> g(M);` / `std::unique_lock<std::shared_mutex> g(M);` -> IORA_LOCK_GUARD(g, M);
 * the unit plugin inserts IORA_UNLOCK_GUARD(g, M); at the end of the guard's block.  Direct flag access on purpose: the pointer-carrying
 * iora_ulock of iora_monitor.h costs ~20 s of solver time per guard under DFCC (measured), this form 0.1 s. */
#define IORA_LOCK_GUARD(g, M) { IORA_ASSERT(!(M).held, "LK1 mutex is not already held by this thread when it is locked (self-deadlock)"); (M).held = 1; }
#define IORA_UNLOCK_GUARD(g, M) { (M).held = 0; }
#define IORA_NO_LOCK_HELD(e) (!(e)->_cbMutex.held && !(e)->_sessionRwMutex.held)
/* a witness session map only ever lives inside a UdpEngine (container-of; a pointer field would not survive CBMC's value-set analysis) */
static inline bool iora_sess_wlock_held(const IORA_SESS_T *m)
{ return ((const UdpEngine *)((const char *)m - offsetof(UdpEngine, _sessions)))->_sessionRwMutex.held; }
#ifdef IORA_UDP_TABLE3
static inline bool iora_tbl3_contains(const iora_tbl3 *m, SessionId k)
{ return (m->present[0] && m->e[0]->id == k) || (m->present[1] && m->e[1]->id == k) || (m->present[2] && m->e[2]->id == k); }
static inline iora_sess_it iora_tbl3_find(const iora_tbl3 *m, SessionId k)
{ iora_sess_it it = { 1, NULL };
  if (m->present[0] && m->e[0]->id == k) { it.end = 0; it.second = m->e[0]; }
  else if (m->present[1] && m->e[1]->id == k) { it.end = 0; it.second = m->e[1]; }
  else if (m->present[2] && m->e[2]->id == k) { it.end = 0; it.second = m->e[2]; }
  return it; }
static inline void iora_tbl3_erase_slot(iora_tbl3 *m, unsigned i) { m->present[i] = false; free(m->e[i]); }
static inline void iora_tbl3_erase(iora_tbl3 *m, SessionId k)
{ IORA_SESS_GUARDED(m);
  if (m->present[0] && m->e[0]->id == k) iora_tbl3_erase_slot(m, 0);
  else if (m->present[1] && m->e[1]->id == k) iora_tbl3_erase_slot(m, 1);
  else if (m->present[2] && m->e[2]->id == k) iora_tbl3_erase_slot(m, 2); }
static inline void iora_tbl3_clear(iora_tbl3 *m)
{ IORA_SESS_GUARDED(m); if (m->present[0]) iora_tbl3_erase_slot(m, 0); if (m->present[1]) iora_tbl3_erase_slot(m, 1); if (m->present[2]) iora_tbl3_erase_slot(m, 2); }
static inline size_t iora_tbl3_size(const iora_tbl3 *m) { return (size_t)m->present[0] + (size_t)m->present[1] + (size_t)m->present[2]; }
static inline bool iora_tbl3_present(const iora_tbl3 *m, size_t i) { return m->present[i]; }
static inline Session *iora_tbl3_at(const iora_tbl3 *m, size_t i) { IORA_ASSERT(i < IORA_TBL_N && m->present[i], "map iteration yields live entries only"); return m->e[i]; }
/* std::vector<Session*> / std::vector<SessionId> filled from that table: at most IORA_TBL_N elements */
typedef struct { size_t n; Session *v[IORA_TBL_N]; } iora_ptrvec3;
typedef struct { size_t n; SessionId v[IORA_TBL_N]; } iora_idvec3;
#define iora_ptrvec3_DEFAULT ((iora_ptrvec3){0, {0}})
#define iora_idvec3_DEFAULT ((iora_idvec3){0, {0}})
static inline void iora_ptrvec3_reserve(iora_ptrvec3 *v, size_t n) { (void)v; (void)n; }
static inline void iora_idvec3_reserve(iora_idvec3 *v, size_t n) { (void)v; (void)n; }
static inline void iora_ptrvec3_push_back(iora_ptrvec3 *v, Session *s) { IORA_ASSERT(v->n < IORA_TBL_N, "bounded stand-in: at most 3 elements"); v->v[v->n++] = s; }
static inline void iora_idvec3_push_back(iora_idvec3 *v, SessionId s) { IORA_ASSERT(v->n < IORA_TBL_N, "bounded stand-in: at most 3 elements"); v->v[v->n++] = s; }
#define IORA_SESS_CONTAINS(self, sid) iora_tbl3_contains(&(self)->_sessions, (sid))
#elif defined(IORA_UDP_ITERMAP)
#define IORA_SESS_CONTAINS(self, sid) ((sid) == GSID && (self)->_sessions.has)
/* ghost of the iteration: how many OPEN sessions (and open connected clients) the sequences have yielded */
struct { size_t open_seen, open_clients; } GIT;
Session *G_wit_ptr;                 /* the witness session object (assigned by the harness) */
bool G_wit_destroyed;               /* the witness object was destroyed by erase/clear.  It is NOT freed in this model: under a (non-DFCC) loop contract the havoc of
                                     * __CPROVER_deallocated makes every later access look like a use-after-free.  Use after erase is decided with real frees in the bounded
                                     * cross-check (udp_close_sites) and for closeNow itself (udp_close). */
static inline Session *iora_yield_other(Session *o)
{ Session nd; *o = nd; o->closed = nondet_bool(); o->wantWrite = nondet_bool(); o->connectPending = nondet_bool();
  IORA_ASSUME(o->id != GSID && o->wq.lo <= o->wq.hi && o->lastActivity >= 0 && o->created >= 0 && o->connectStart >= 0 && o->lastWriteProgress >= 0); return o; }
static inline void iora_count_open(const Session *s) { if (!s->closed) { GIT.open_seen++; if (s->role == Role_ClientConnected) GIT.open_clients++; } }
static inline size_t iora_smapit_size(const iora_smapit *m) { return m->n; }
static inline Session *iora_smapit_at(iora_smapit *m, size_t i)
{ IORA_ASSERT(i < m->n, "map iteration stays inside the table"); if (m->has && i == m->gpos) return m->val; return iora_yield_other(m->other); }
static inline iora_sess_it iora_smapit_find(iora_smapit *m, SessionId k)
{ iora_sess_it it; if (k == GSID) { it.end = !m->has; it.second = m->val; }
  else { it.end = nondet_bool(); it.second = iora_yield_other(m->other); m->other->id = k; } return it; }
static inline void iora_smapit_erase(iora_smapit *m, SessionId k)
{ IORA_SESS_GUARDED(m); if (k == GSID) { if (m->has) { m->has = false; G_wit_destroyed = true; IORA_ASSERT(m->n > 0, "iteration ghost: a present entry is counted"); m->n--; } }
  else if (m->n > (m->has ? 1u : 0u) && nondet_bool()) m->n--; }
static inline void iora_smapit_clear(iora_smapit *m) { IORA_SESS_GUARDED(m); if (m->has) { m->has = false; G_wit_destroyed = true; } m->n = 0; }
/* std::vector<Session*> / std::vector<SessionId> filled from that table, as ghost sequences with the witness element */
typedef struct { size_t n; bool has_w; size_t wpos; } iora_ptrseq;
typedef struct { size_t n; bool has_w; size_t wpos; } iora_idseq;
#define iora_ptrseq_DEFAULT ((iora_ptrseq){0, 0, 0})
#define iora_idseq_DEFAULT ((iora_idseq){0, 0, 0})
static inline void iora_ptrseq_reserve(iora_ptrseq *v, size_t n) { (void)v; (void)n; }
static inline void iora_idseq_reserve(iora_idseq *v, size_t n) { (void)v; (void)n; }
static inline void iora_ptrseq_push_back(iora_ptrseq *v, Session *s) { IORA_ASSERT(v->n < (size_t)-1, "ghost length does not wrap"); if (s == G_wit_ptr) { v->has_w = true; v->wpos = v->n; } v->n++; }
static inline void iora_idseq_push_back(iora_idseq *v, SessionId id) { IORA_ASSERT(v->n < (size_t)-1, "ghost length does not wrap"); if (id == GSID) { IORA_ASSERT(!v->has_w, "a session id is collected at most once"); v->has_w = true; v->wpos = v->n; } v->n++; }
static inline Session *iora_ptrseq_get(const iora_ptrseq *v, size_t j, Session *other)
{ IORA_ASSERT(j < v->n, "vector iteration in range"); Session *s = (v->has_w && j == v->wpos) ? G_wit_ptr : iora_yield_other(other); iora_count_open(s); return s; }
static inline SessionId iora_idseq_get(const iora_idseq *v, size_t j)
{ IORA_ASSERT(j < v->n, "vector iteration in range"); if (v->has_w && j == v->wpos) return GSID; SessionId k = nondet_u64(); IORA_ASSUME(k != GSID); return k; }
#else
#define IORA_SESS_CONTAINS(self, sid) ((sid) == GSID && (self)->_sessions.has)
#endif
#ifdef IORA_UDP_ITERMAP
#define IORA_WITNESS_FLAG_AT_CB(self) (G.cl.flag_w = (self)->_sessions.has && (self)->_sessions.val->closed)
#else
#define IORA_WITNESS_FLAG_AT_CB(self) ((void)0)
#endif
/* unit-specific observation hooks of the callback stubs (default: none) */
#ifndef IORA_ON_CLOSE_HOOK
#define IORA_ON_CLOSE_HOOK(self, sid) ((void)0)
#endif
#ifndef IORA_ON_DATA_HOOK
#define IORA_ON_DATA_HOOK(self, sid, p, n) ((void)0)
#endif

/* ---- ghost record of the environment ---- */
#define IORA_SAT 1000000u      /* ghost counters saturate far above anything a contract compares them with */
#define IORA_BUMP(c) ((void)((c) < IORA_SAT ? (c)++ : 0))      /* an expression, not do-while(0): goto-instrument counts that as an inner loop */
/* message strings are interned; literal text is not modelled (R8/R20: message text is lost) */
#define iora_str_lit(lit) ((iora_strid)sizeof(lit))
#define iora_str_cat(lit, id) ((iora_strid)sizeof(lit) + (id))

/* send(2) / sendto(2) on a non-blocking datagram socket: -1 with any errno, or a count 0..n (A: the kernel takes a datagram whole or not at all).
 * Every call is recorded; the call that transmits the queue element at the witness index GQ (as told by the last front()) is recorded separately. */
static inline int iora_tx_common(bool is_sendto, int fd, const uint8_t *p, int n, int flags, const sockaddr *to, socklen_t tolen)
{ IORA_ASSERT(n >= 0, "TX0 datagram length fits the int length argument");
  IORA_ASSERT(!is_sendto || tolen <= sizeof(sockaddr_storage), "TX0 destination length within sockaddr_storage");
  G_tx_calls++; G_tx_is_sendto = is_sendto; G_tx_fd = fd; G_tx_p = p; G_tx_n = n; G_tx_flags = flags; G_tx_tolen = tolen;
  G_tx_to_gb = (is_sendto && GB < tolen && GB < sizeof(sockaddr_storage)) ? to->b[GB] : 0;
  if (G_front_lo == GQ) { G_txw_calls++; G_txw_p = p; G_txw_n = n; G_txw_tolen = tolen; G_txw_to_gb = G_tx_to_gb; }
  int r = nondet_int(); int e = nondet_int();
  IORA_ASSUME(r >= -1 && r <= n && e > 0);
  if (r < 0) { iora_errno = e; G_tx_errno = e; if (e == EAGAIN) G_tx_again++; else G_tx_err++; } else { G_tx_ok++; }
  G_tx_ret = r; return r; }
static inline int iora_sys_send(int fd, const uint8_t *p, int n, int flags) { return iora_tx_common(0, fd, p, n, flags, NULL, 0); }
static inline int iora_sys_sendto(int fd, const uint8_t *p, int n, int flags, const sockaddr *to, socklen_t tolen) { return iora_tx_common(1, fd, p, n, flags, to, tolen); }

/* steady_clock::now(): some non-negative tick count (A); units that judge time-outs record the first value read */
static inline MonoTime iora_mono_now(void)
{ MonoTime t = nondet_i64(); IORA_ASSUME(t >= 0);
#ifdef IORA_RECORD_NOW
  if (G.misc.now_calls == 0) G.misc.now_first = t; IORA_BUMP(G.misc.now_calls);
#endif
  return t; }
static inline iora_strid UdpEngine_lastErr(UdpEngine *self) { (void)self; return nondet_u64(); }

/* user callbacks: may do anything to the application, re-enter the engine only through the command queue (A), hence change no engine state */
static inline void iora_cb_onClose_call(UdpEngine *self, iora_cb_onClose cb, SessionId sid, TransportError why, iora_strid m, int err)
{ (void)m; (void)err; IORA_ASSERT(cb.set, "std::function called only when non-empty");
  IORA_BUMP(G_closeCb_calls); G_closeCb_sid = sid; G_closeCb_why = why;
  G_closeCb_erased = !IORA_SESS_CONTAINS(self, sid);        /* was the session already out of the table when the application heard of the close? */
  G_closeCb_locked = !IORA_NO_LOCK_HELD(self); G.cl.closeCb_total++;
  if (sid == GSID) { IORA_BUMP(G.cl.closeCb_calls_w); G.cl.erased_w = G_closeCb_erased; G.cl.locked_w = G_closeCb_locked; G.cl.why_w = why; IORA_WITNESS_FLAG_AT_CB(self); }
  IORA_ON_CLOSE_HOOK(self, sid); }
static inline void iora_cb_onError_call(UdpEngine *self, iora_cb_onError cb, TransportError e)
{ (void)self; (void)e; IORA_ASSERT(cb.set, "std::function called only when non-empty"); IORA_BUMP(G_errorCb_calls); }

/* ---- receive path ---- */
/* the per-datagram receive buffer `std::vector<uint8_t> buf; buf.resize(ioReadChunk)`: real memory of exactly that size (A: allocation succeeds, bad_alloc is not modelled) */
typedef struct { uint8_t *p; size_t n; } iora_rxbuf;
#define iora_rxbuf_DEFAULT ((iora_rxbuf){0, 0})
static inline void iora_rxbuf_resize(iora_rxbuf *v, size_t n) { v->p = (uint8_t *)malloc(n ? n : 1); IORA_ASSUME(v->p != NULL); v->n = n; }
static inline uint8_t *iora_rxbuf_data(iora_rxbuf *v) { return v->p; }
static inline size_t iora_rxbuf_size(const iora_rxbuf *v) { return v->n; }
/* std::make_unique<Session>(): a fresh object with the default member initialisers */
static inline Session *iora_new_Session(void) { Session *s = (Session *)malloc(sizeof(Session)); IORA_ASSUME(s != NULL); *s = Session_DEFAULT; return s; }
#define IORA_UDP_MAX_PAYLOAD 65507u
/* recvfrom(2) on a non-blocking UDP socket: -1 with any errno (> 0), or ONE datagram: the kernel copies min(len, datagram length) bytes, DISCARDS the rest
 * (that is how truncation happens), and stores the source address (length <= sizeof(sockaddr_storage)).  The payload byte at the ghost index GK and the
 * address byte at GB are recorded. */
static inline int iora_sys_recvfrom(int fd, uint8_t *buf, int len, int flags, sockaddr *from, socklen_t *fl)
{ (void)flags; IORA_ASSERT(len >= 0, "RX0 buffer length fits the int length argument");
  IORA_ASSERT(*fl == sizeof(sockaddr_storage), "RX0 recvfrom is given the full size of the address buffer");
  IORA_BUMP(G.rc.calls); G.rc.fd = fd; G.rc.buf = buf; G.rc.buflen = len;
  if (nondet_bool()) { int e = nondet_int(); IORA_ASSUME(e > 0); iora_errno = e; G.rc.ret = -1; return -1; }
  size_t dl = nondet_size_t(); IORA_ASSUME(dl <= IORA_UDP_MAX_PAYLOAD); G.rc.dgram_len = dl;
  int r = dl <= (size_t)len ? (int)dl : len;
  sockaddr_storage a; socklen_t al = nondet_u64() & 0xff; IORA_ASSUME(al <= sizeof(sockaddr_storage));
  *from = a; *fl = al; G.rc.fromlen = al; G.rc.from_gb = GB < sizeof(sockaddr_storage) ? a.b[GB] : 0;
  if (GK < (size_t)r) { buf[GK] = nondet_u8(); G.rc.byte_gk = buf[GK]; }
  G.rc.ret = r; return r; }
/* key(ss), interned.  Unit udp_key puts the REAL key() under contract: the key is `numeric host text ++ ':' ++ port digits` (KY1/KY2) and that shape is injective in
 * (host text, port text) (lemma KL1-KL4).  Accordingly the key id is modelled as an injective PAIRING of (host text id, port number) - "different (host, port) =>
 * different key" is no longer an assumption of the peer-index units but a computed fact resting on udp_key.  The empty key (getnameinfo failed) is id 0.
 * Still assumed: getnameinfo's numeric host text / port digits are an injective function of the address; which host id / port a given address gets is arbitrary here. */
#define IORA_KEY_PAIR(host, port) ((((iora_strid)(host)) << 16) | (iora_strid)(port))      /* host id in 1 .. 2^48-1, port 0 .. 65535 */
static inline iora_strid UdpEngine_key(UdpEngine *self, sockaddr_storage ss)
{ (void)self; IORA_BUMP(G.rc.key_calls); G.rc.key_of_source = (GB >= sizeof(sockaddr_storage) || ss.b[GB] == G.rc.from_gb);
  if (nondet_bool()) { G.rc.key_host = 0; G.rc.key_port = 0; G.rc.key = 0; return 0; }
  uint64_t h = nondet_u64(); uint16_t p = (uint16_t)nondet_u64(); IORA_ASSUME(h >= 1 && h < ((uint64_t)1 << 48));
  G.rc.key_host = h; G.rc.key_port = p; G.rc.key = IORA_KEY_PAIR(h, p); return G.rc.key; }
static inline TransportAddress UdpEngine_addressFromSockaddr(UdpEngine *self, sockaddr_storage ss) { (void)self; (void)ss; return nondet_u64(); }
/* bumpSess(): sessionsCurrent++ and peak = max(peak, current) (its CAS loop is not under contract) */
static inline void UdpEngine_bumpSess(UdpEngine *self)
{ self->_atomicStats.sessionsCurrent++; if (self->_atomicStats.sessionsCurrent > self->_atomicStats.sessionsPeak) self->_atomicStats.sessionsPeak = self->_atomicStats.sessionsCurrent; }
static inline void iora_cb_onAccept_call(UdpEngine *self, iora_cb_onAccept cb, SessionId sid, TransportAddress a)
{ IORA_ASSERT(cb.set, "std::function called only when non-empty"); IORA_BUMP(G.rx.acceptCb_calls); G.rx.acceptCb_sid = sid; G.rx.acceptCb_addr = a;
  G.rx.acceptCb_datas_before = G.rx.dataCb_calls; G.rx.acceptCb_locked = !IORA_NO_LOCK_HELD(self); }
static inline void iora_cb_onConnect_call(UdpEngine *self, iora_cb_onConnect cb, SessionId sid, TransportAddress a)
{ (void)a; IORA_ASSERT(cb.set, "std::function called only when non-empty"); IORA_BUMP(G.rx.connectCb_calls); G.rx.connectCb_sid = sid; G.rx.connectCb_locked = !IORA_NO_LOCK_HELD(self); }
static inline void iora_cb_onData_call(UdpEngine *self, iora_cb_onData cb, SessionId sid, const uint8_t *p, size_t n, MonoTime t)
{ IORA_ASSERT(cb.set, "std::function called only when non-empty"); IORA_BUMP(G.rx.dataCb_calls); G.rx.dataCb_sid = sid; G.rx.dataCb_p = p; G.rx.dataCb_n = n; G.rx.dataCb_time = t;
#ifndef IORA_RX_CONTENT_ABSTRACT
  G.rx.dataCb_byte_gk = GK < n ? p[GK] : 0;
#endif
  G.rx.dataCb_locked = !IORA_NO_LOCK_HELD(self);
  /* the session the event is announced on is, at this moment, in the table, open, and keyed by the witness peer key */
#ifndef IORA_UDP_TABLE3
  G.rx.dataCb_sess_ok = (sid == GSID) ? (self->_sessions.has && self->_sessions.val != NULL && !self->_sessions.val->closed && self->_sessions.val->pkey == GPK) : true;
#endif
  IORA_ON_DATA_HOOK(self, sid, p, n); }

/* engine helpers that are not under contract in these units (epoll bookkeeping) */
static inline void UdpEngine_delEpoll(UdpEngine *self, int fd)
{ (void)self; IORA_BUMP(G_delEpoll_calls); G_delEpoll_fd = fd; G_delEpoll_closes_before = G_close_calls; }
static inline bool UdpEngine_modEpoll(UdpEngine *self, int fd, uint32_t ev)
{ (void)self; IORA_BUMP(G_modEpoll_calls); G_modEpoll_fd = fd; G_modEpoll_ev = ev; return nondet_bool(); }
#ifndef IORA_ON_SYS_CLOSE_HOOK
#define IORA_ON_SYS_CLOSE_HOOK(fd) ((void)0)
#endif
static inline int iora_sys_close(int fd) { IORA_BUMP(G_close_calls); G_close_fd = fd; if (fd == GFD) G.cl.gfd_closed = true; IORA_ON_SYS_CLOSE_HOOK(fd); return 0; }
#endif
