/* SPECIFICATION header (no code under verification): the KVStore log record format, WRITER side, as byte-valued macros.
 * Used by unit kv_codec (writeLogEntry produces exactly these bytes) and by unit kv_replay (lemma dec(enc(r)) == r against the reader-side macros). */
#ifndef IORA_KVLOG_FORMAT_H
#define IORA_KVLOG_FORMAT_H
/* ---- record format enc(op,key,exp,val), written from the property anchors ("length-prefixed, CRC-protected log records"):
 *   len32 | op | klen32 | key | [exp64 if op in {E,X}] | [vlen32 | val if op in {E,S}] | crc32(payload)      len32 = |payload| + 4
 * integers little-endian (host order of the only supported targets). Characters as numbers: the contract parser trips on char literals. */
#define OP_S ((char)83)
#define OP_D ((char)68)
#define OP_E ((char)69)
#define OP_X ((char)88)
#define ENC_HASEXP(op) ((op) == OP_E || (op) == OP_X)
#define ENC_HASVAL(op) ((op) == OP_E || (op) == OP_S)
#define LE_BYTE(v, k) ((uint8_t)(((uint64_t)(v)) >> (8 * (k))))
#define PAY_N(op, key, value) ((size_t)(1 + 4 + (key).n + (ENC_HASEXP(op) ? 8 : 0) + (ENC_HASVAL(op) ? 4 + (value).n : 0)))
#define PAY_VOFF(op, key) ((size_t)(5 + (key).n + (ENC_HASEXP(op) ? 8 : 0)))      /* offset of vlen32 inside the payload */
#define PAY_BYTE(j, op, key, value, exp) ( \
    (j) == 0 ? (uint8_t)(op) \
  : (j) < 5 ? LE_BYTE((uint32_t)(key).n, (j) - 1) \
  : (j) < 5 + (key).n ? (uint8_t)(key).p[(j) - 5] \
  : (ENC_HASEXP(op) && (j) < 5 + (key).n + 8) ? LE_BYTE((uint64_t)(exp), (j) - 5 - (key).n) \
  : (j) < PAY_VOFF(op, key) + 4 ? LE_BYTE((uint32_t)(value).n, (j) - PAY_VOFF(op, key)) \
  : (value).p[(j) - PAY_VOFF(op, key) - 4])
#define ENC_N(op, key, value) ((size_t)(4 + PAY_N(op, key, value) + 4))
#define ENC_BYTE(i, op, key, value, exp, crc) ( \
    (i) < 4 ? LE_BYTE((uint32_t)(PAY_N(op, key, value) + 4), (i)) \
  : (i) < 4 + PAY_N(op, key, value) ? PAY_BYTE((i) - 4, op, key, value, exp) \
  : LE_BYTE((uint32_t)(crc), (i) - 4 - PAY_N(op, key, value)))

#endif
