/* R11: std::mutex / std::unique_lock / std::lock_guard / std::condition_variable as GHOST state (sequential lock model).
 *
 *   std::unique_lock<std::mutex> lk(m);  /  std::lock_guard<std::mutex> lk(m);   ->  iora_ulock lk = iora_ulock_make(&m);
 *   lk.unlock() / lk.lock()                                                       ->  iora_ulock_unlock(&lk) / iora_ulock_lock(&lk)
 *   scope exit (every `return`, end of function)                                  ->  iora_ulock_dtor(&lk)   (inserted by the unit's plugin)
 *   cv.notify_one() / cv.notify_all()                                             ->  ghost counters
 *   cv.wait(lk, pred) / cv.wait_for(lk, t, pred)                                  ->  unit-specific macro (the havoc needs the unit's monitor state)
 *
 * What is checked: lock/unlock pairing (no double lock, no unlock of an unowned lock, nothing left locked at exit) and, through the
 * `guard` field of guarded containers, "every access to the shared container happens with the mutex held".
 * What is NOT modelled: blocking, scheduling, fairness, spurious wake-ups as such (a wait is "anything the monitor invariant allows
 * may have happened"), lost wake-ups, memory ordering. */
#ifndef IORA_MONITOR_H
#define IORA_MONITOR_H
typedef struct { bool held; } iora_mutex;
typedef struct { iora_mutex *m; bool owns; } iora_ulock;
static inline iora_ulock iora_ulock_make(iora_mutex *m)
{ IORA_ASSERT(!m->held, "LK1 mutex is not already held by this thread when it is locked (self-deadlock)"); m->held = 1; iora_ulock l = { m, 1 }; return l; }
static inline void iora_ulock_unlock(iora_ulock *l)
{ IORA_ASSERT(l->owns && l->m->held, "LK2 unlock() on a lock that is owned"); l->m->held = 0; l->owns = 0; }
static inline void iora_ulock_lock(iora_ulock *l)
{ IORA_ASSERT(!l->owns && !l->m->held, "LK1 lock() on a lock that is not owned"); l->m->held = 1; l->owns = 1; }
/* unique_lock::release(): gives up ownership WITHOUT unlocking (the mutex stays locked) */
static inline void iora_ulock_release(iora_ulock *l) { l->owns = 0; }
static inline void iora_ulock_dtor(iora_ulock *l) { if (l->owns) { l->m->held = 0; l->owns = 0; } }

/* condition variable: counts notifications (saturating, so that no ghost counter overflow obligation arises) */
typedef struct { unsigned n_one; unsigned n_all; } iora_cv;
static inline void iora_cv_notify_one(iora_cv *c) { if (c->n_one < 0x7fffffffu) c->n_one++; }
static inline void iora_cv_notify_all(iora_cv *c) { if (c->n_all < 0x7fffffffu) c->n_all++; }
#endif
