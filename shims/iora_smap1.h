/* std::unordered_map<std::string, V> as a WITNESS-KEY map for STRING keys (DESIGN 2.2 iora_map1; the pointer-keyed owning variant is
 * iora_map1.h, the mutex-guarded one iora_gmap1.h).
 *
 *   A key is `iora_skey` = the code's string as a view (p,n) plus the ghost bit `is_g` = "this string equals THE ghost key". The bit is
 *   drawn nondeterministically when the key object is made (iora_skey_make) or handed in by the harness: comparing a symbolic-length
 *   string with a ghost string would need a loop; drawing the answer over-approximates every consistent answer, so it is sound for
 *   clauses "for every key k".  The map tracks presence and value for the ghost key only:
 *     find/contains/operator[]/erase with is_g     exact
 *     the same with !is_g                          lookups answer nondeterministically (value = `other`, arbitrary), writes go to `other`
 *                                                  and are forgotten: the witness entry is untouched (frame "other keys untouched")
 *   Ghost: `touched` (any mutating call), `gtouched` (on the ghost key), `lastkey` (key of the last mutating call) let a contract say
 *   "no state change" and "the key that was applied is the decoded one".
 *   Not modelled: iteration, size(), rehashing/iterator invalidation.
 *   IORA_SMAP1(M, V, VDEFAULT) declares type M, M_iter and the operations. */
#ifndef IORA_SMAP1_H
#define IORA_SMAP1_H
typedef struct { const char *p; size_t n; bool is_g; } iora_skey;
iora_skey G_skey_last; bool G_skey_made;      /* ghost: the key object made last (so a contract can speak about a key that was NOT applied) */
#ifdef IORA_NATIVE
const char *G_native_gkey_p; size_t G_native_gkey_n;   /* differential run: content of THE ghost key */
#endif
/* std::string key(ptr, n) */
static inline iora_skey iora_skey_make(const char *p, size_t n)
{
  IORA_ASSERT(n == 0 || __CPROVER_r_ok(p, n), "std::string(ptr, n): source range readable");
  iora_skey k; k.p = p; k.n = n;
#ifndef IORA_NATIVE
  k.is_g = nondet_bool();
#else
  /* differential run (tools/diffrun.py): THE ghost key is a concrete byte string chosen by the driver; a key is the ghost key iff its
   * content equals it (the witness entry is then exact for that key; the driver repeats the run once per key it wants to observe) */
  k.is_g = G_native_gkey_p != NULL && n == G_native_gkey_n && (n == 0 || memcmp(p, G_native_gkey_p, n) == 0);
#endif
  G_skey_last = k; G_skey_made = true;
  return k;
}
static inline bool iora_skey_empty(const iora_skey *k) { return k->n == 0; }
static inline size_t iora_skey_size(const iora_skey *k) { return k->n; }
/* iteration ghost bookkeeping on insert/erase by key: the number of entries moves by one and - iteration order being unspecified (rehash) - the
 * ghost entry may afterwards sit at ANY position.  Saturating, so that harnesses that never iterate need not constrain n. */
#ifndef IORA_NATIVE
#define IORA_SMAP1_REPOS(m) { if ((m)->has) { (m)->gpos = nondet_size_t(); IORA_ASSUME((m)->gpos < (m)->n); } }
#else
#define IORA_SMAP1_REPOS(m) { }
#endif
#define IORA_SMAP1_GROW(m) { if ((m)->n < ~(size_t)0) (m)->n++; IORA_SMAP1_REPOS(m) }   /* braces, not do{}while(0): see iora_base.h canaries */
#define IORA_SMAP1_SHRINK(m) { if ((m)->n > 0) (m)->n--; IORA_SMAP1_REPOS(m) }
#define IORA_SMAP1(M, V, VDEFAULT) \
typedef struct { bool has; V val; V other; bool touched; bool gtouched; iora_skey lastkey; \
                 size_t n; size_t gpos; /* iteration ghost: number of entries, position of the ghost entry (has => gpos < n) */ \
                 size_t gkn; /* length of the ghost key as seen when iterating */ } M; \
typedef struct { const M *map; bool found; V *second; iora_skey first; } M##_iter; \
static inline M##_iter M##_find(M *m, iora_skey k) \
{ M##_iter it; it.map = m; it.first = k; \
  if (k.is_g) { it.found = m->has; it.second = &m->val; } else { it.found = nondet_bool(); it.second = &m->other; } \
  return it; } \
static inline bool M##_contains(const M *m, iora_skey k) { return k.is_g ? m->has : nondet_bool(); } \
/* m[k]: inserts a value-initialised entry when k is absent */ \
static inline V *M##_index(M *m, iora_skey k) \
{ m->touched = true; m->lastkey = k; \
  if (k.is_g) { m->gtouched = true; if (!m->has) { m->has = true; m->val = (VDEFAULT); IORA_SMAP1_GROW(m) } return &m->val; } \
  if (nondet_bool()) IORA_SMAP1_GROW(m)                  /* another key may have been inserted */ \
  return &m->other; } \
/* m.erase(key) -> number of erased entries */ \
static inline size_t M##_erase(M *m, iora_skey k) \
{ m->touched = true; m->lastkey = k; \
  if (k.is_g) { m->gtouched = true; bool p = m->has; m->has = false; if (p) IORA_SMAP1_SHRINK(m) return p ? 1 : 0; } \
  if (nondet_bool() && m->n > (m->has ? 1u : 0u)) { IORA_SMAP1_SHRINK(m) return 1; } \
  return 0; }
/* ---- iteration (`for (auto it = m.begin(); it != m.end(); ) { ... it = m.erase(it) / ++it }`): the map has an arbitrary ghost number of
 * entries `n`; the ghost key's entry (if present) sits at the arbitrary position `gpos < n`; every other position holds some other key with an
 * ARBITRARY value (drawn anew at every access).  A cursor is {map, index}.  erase(cursor) removes the entry under the cursor: the index then
 * designates the next entry (n and, if it lies behind, gpos move down by one).  Sound for clauses "for every key": each entry is visited
 * exactly when its position is reached, whatever the order.  IORA_SMAP1_ITER(M, V) adds these operations to a map declared by IORA_SMAP1. */
#define IORA_SMAP1_ITER(M, V) \
typedef struct { M *map; size_t i; } M##_cursor; \
V nondet_##M##_value(void); \
static inline M##_cursor M##_begin(M *m) { M##_cursor c; c.map = m; c.i = 0; return c; } \
static inline bool M##_at_end(const M *m, M##_cursor c) { IORA_ASSERT(c.map == m, "iterator compared with end() of the map it came from"); return c.i >= m->n; } \
static inline bool M##_cur_is_g(M##_cursor c) { return c.map->has && c.i == c.map->gpos; } \
static inline iora_skey M##_cur_first(M##_cursor c) \
{ IORA_ASSERT(c.i < c.map->n, "unordered_map iterator dereferenced only when it is not end()"); \
  iora_skey k; k.p = NULL; k.is_g = M##_cur_is_g(c); k.n = k.is_g ? c.map->gkn : nondet_size_t(); return k; } \
static inline V *M##_cur_second(M##_cursor c) \
{ IORA_ASSERT(c.i < c.map->n, "unordered_map iterator dereferenced only when it is not end()"); \
  if (M##_cur_is_g(c)) return &c.map->val; \
  c.map->other = nondet_##M##_value(); return &c.map->other; } \
static inline M##_cursor M##_erase_at(M *m, M##_cursor c) \
{ IORA_ASSERT(c.map == m && c.i < m->n, "unordered_map::erase(iterator): dereferenceable iterator of this map"); \
  m->touched = true; \
  if (M##_cur_is_g(c)) { m->has = false; m->gtouched = true; } else if (m->has && c.i < m->gpos) m->gpos--; \
  m->n--; return c; } \
static inline void M##_cursor_next(M##_cursor *c) { IORA_ASSERT(c->i < c->map->n, "++ on end()"); c->i++; }
/* `it == m.end()` */
#define IORA_SMAP1_IS_END(it, m) (IORA_ASSERT((it).map == (m), "iterator compared with end() of the map it came from"), !(it).found)
/* `it->second` */
#define IORA_SMAP1_SECOND(it) (*(IORA_ASSERT((it).found, "unordered_map iterator dereferenced only when it is not end()"), (it).second))
#endif
