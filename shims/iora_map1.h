/* std::unordered_map<K, std::unique_ptr<T>> as an OWNING WITNESS-KEY map (DESIGN 2.2 iora_map1, R22).
 *
 *   IORA_MAP1(M, K, V) declares the map type M (V = T*, the raw pointer behind the unique_ptr), its iterator M_it and the ghost
 *   key `M_GKEY` - a global that no harness constrains. The map tracks presence and mapped pointer for THAT key only:
 *     find(k), k == M_GKEY   exact answer (has, val)
 *     find(k), k != M_GKEY   found nondeterministically; the mapped pointer is `other` (whatever the harness put there; a unit that
 *                            never looks up other keys leaves it invalid, so an unexpected use is a failed pointer obligation)
 *     erase(k), k == M_GKEY  the entry disappears AND the owned object is destroyed: the shim calls free(), so any later use of
 *                            the object is a failed pointer obligation (use-after-erase)
 *     erase(k), k != M_GKEY  no effect on the witness entry (frame)
 *     erase(it)              same, by iterator (must be dereferenceable)
 *     emplace(k, v)          inserts only if absent (std::unordered_map::emplace)
 *   A clause proved for the unconstrained witness key holds for every key; read with M_GKEY != the operated key it is the frame
 *   "entries of other keys are untouched".
 *   Not modelled: iteration order, rehashing, iterator invalidation beyond erase of the witness, size(). (A mutex-guarded
 *   non-owning variant lives in iora_gmap1.h.) */
#ifndef IORA_MAP1_H
#define IORA_MAP1_H
#define IORA_MAP1(M, K, V) \
typedef struct { bool has; V val; V other; } M; \
typedef struct { K key; bool found; V val; } M##_it; \
K M##_GKEY; \
static inline M##_it M##_find(const M *m, K k) \
{ M##_it it; it.key = k; \
  if (k == M##_GKEY) { it.found = m->has; it.val = m->has ? m->val : (V)0; } \
  else { it.found = nondet_bool(); it.val = it.found ? m->other : (V)0; } \
  return it; } \
static inline bool M##_is_end(const M *m, M##_it it) { (void)m; return !it.found; } \
/* it->second.get() */ \
static inline V M##_it_get(M##_it it) { IORA_ASSERT(it.found, "unordered_map iterator dereferenced only when it is not end()"); return it.val; } \
static inline size_t M##_erase(M *m, K k) \
{ if (k == M##_GKEY) { if (m->has) { m->has = 0; free(m->val); return 1; } return 0; } \
  return nondet_bool() ? 1 : 0; } \
/* m.erase(iterator) */ \
static inline void M##_erase_it(M *m, M##_it it) \
{ IORA_ASSERT(it.found, "unordered_map::erase(iterator): dereferenceable iterator"); \
  if (it.key == M##_GKEY) { IORA_ASSERT(m->has, "unordered_map::erase(iterator): iterator still valid"); m->has = 0; free(m->val); } } \
static inline bool M##_emplace(M *m, K k, V v) \
{ if (k == M##_GKEY) { if (m->has) return 0; m->has = 1; m->val = v; return 1; } \
  return nondet_bool(); } \
static inline bool M##_contains(const M *m, K k) { return k == M##_GKEY ? m->has : nondet_bool(); }
#endif
