/* std::deque<uint64_t> used as a FIFO (push_back / front / pop_front / size / empty), as a GHOST sequence:
 *   the deque is the interval [lo, hi) of LOGICAL indices: hi = number of push_back so far, lo = number of pop_front so far
 *   (so "the k-th item ever pushed" is logical index k, it is in the deque iff lo <= k < hi);
 *   the element at ONE arbitrary ghost logical index GQ is stored in `w` (witness); other elements answer nondeterministically.
 * A clause proved for arbitrary GQ holds for every element; the length is unbounded.
 * `guard` (ghost): the mutex that protects the container; every access asserts it is held. Requires iora_monitor.h. */
#ifndef IORA_GDEQUE_H
#define IORA_GDEQUE_H
size_t GQ;
typedef struct { size_t lo, hi; uint64_t w; uint64_t other; const iora_mutex *guard; } iora_gdeque_u64;
#define IORA_GDEQUE_GUARDED(d) IORA_ASSERT((d)->guard->held, "LK3 shared container accessed with its mutex held")
static inline size_t iora_gdeque_u64_size(const iora_gdeque_u64 *d) { IORA_GDEQUE_GUARDED(d); return d->hi - d->lo; }
static inline bool iora_gdeque_u64_empty(const iora_gdeque_u64 *d) { IORA_GDEQUE_GUARDED(d); return d->hi == d->lo; }
static inline void iora_gdeque_u64_push_back(iora_gdeque_u64 *d, uint64_t v)
{ IORA_GDEQUE_GUARDED(d); IORA_ASSERT(d->hi < (size_t)-1, "ghost push counter does not wrap"); if (d->hi == GQ) d->w = v; d->hi++; }
static inline uint64_t *iora_gdeque_u64_front(iora_gdeque_u64 *d)
{ IORA_GDEQUE_GUARDED(d); IORA_ASSERT(d->lo < d->hi, "deque::front() on a non-empty deque");
  if (d->lo == GQ) return &d->w;
#ifndef IORA_NATIVE
  d->other = nondet_u64();
#endif
  return &d->other; }
static inline void iora_gdeque_u64_pop_front(iora_gdeque_u64 *d)
{ IORA_GDEQUE_GUARDED(d); IORA_ASSERT(d->lo < d->hi, "deque::pop_front() on a non-empty deque"); d->lo++; }
#endif
