/* Type environment and shims for iora::parsers::JsonParser / Json (include/iora/parsers/json.hpp), property C13.
 * Shared by the units json_scan, json_string, json_escape, json_tree.  All names carry a json_/Json prefix.
 *
 * What is modelled (trusted base, listed in every unit.json that includes this header):
 *  - std::string_view _text          -> iora_sv (real memory (p,n), made symbolic with is_fresh); operator[] is bounds-asserted,
 *                                       substr(pos,cnt) asserts pos <= size() (libstdc++ throws std::out_of_range otherwise)
 *  - std::string _error              -> const char * (the code only assigns string literals; "set" == non-NULL)
 *  - Json (the value under construction) -> opaque shim: type tag + scalar payload + string accumulator iora_ostr
 *  - std::strtod / std::from_chars   -> stubs returning an arbitrary value (numeric conversion is NOT decided here); they
 *                                       assert that they are applied to exactly the scanned token [start,_pos)
 */
#ifndef IORA_JSON_H
#define IORA_JSON_H

typedef struct { size_t arrayItemsMax; size_t membersMax; size_t depthMax; size_t stringLengthMax; } ParseLimits;

typedef struct { uint8_t type; bool b; int64_t i; double d; iora_ostr s; } Json;
/* JsonType_* come from the enum class JsonType, extracted from the header on every run (macros expand after it) */
#define Json_DEFAULT ((Json){ .type = JsonType_Null, .b = false, .i = 0, .d = 0.0, .s = {0, 0} })
#define Json_null() ((Json){ .type = JsonType_Null, .b = false, .i = 0, .d = 0.0, .s = {0, 0} })
#define Json_bool(x) ((Json){ .type = JsonType_Boolean, .b = (x), .i = 0, .d = 0.0, .s = {0, 0} })
#define Json_int(x) ((Json){ .type = JsonType_Int, .b = false, .i = (x), .d = 0.0, .s = {0, 0} })
#define Json_double(x) ((Json){ .type = JsonType_Double, .b = false, .i = 0, .d = (x), .s = {0, 0} })
#define Json_string(x) ((Json){ .type = JsonType_String, .b = false, .i = 0, .d = 0.0, .s = (x) })

typedef struct { iora_sv _text; size_t _pos; ParseLimits _limits; const char *_error; } JsonParser;

/* inputs of at most 2^50 bytes (size bound, trusted_base): keeps `_pos + k` far away from wrap-around */
#define JSON_IN_MAX ((size_t)1 << 50)
#define JSON_N(s) ((s)->_text.n)
#define JSON_AT(s, i) ((s)->_text.p[i])
#define JSON_UAT(s, i) ((uint8_t)(s)->_text.p[i])
/* a parser object over an arbitrary text of arbitrary length. One __CPROVER_requires per is_fresh, NOT joined by && (measured:
 * `IORA_TRUE && is_fresh(..) && ..` makes every pointer a guarded choice between the fresh object and the harness' dummy object:
 * 235k variables / 17 s for _parseNull; separate unconditional clauses: 11k variables / 1 s) */
#define JSON_PRE(s) \
  __CPROVER_requires(__CPROVER_is_fresh(s, sizeof(*(s)))) \
  __CPROVER_requires((s)->_text.n <= JSON_IN_MAX) \
  __CPROVER_requires(__CPROVER_is_fresh((s)->_text.p, (s)->_text.n)) \
  __CPROVER_requires(IORA_TRUE)
#define JSON_FRESH(o) __CPROVER_requires(__CPROVER_is_fresh(o, sizeof(*(o))))

/* std::string_view::substr(pos, count): out_of_range when pos > size() */
static inline iora_sv json_sv_substr(const iora_sv *s, size_t pos, size_t cnt)
{
  IORA_ASSERT(pos <= s->n, "string_view::substr pos <= size() (std::out_of_range otherwise)");
  size_t r = s->n - pos;
  return (iora_sv){ s->p + pos, cnt < r ? cnt : r };
}
/* operator==(string_view, "literal") for literals of at most 8 bytes: sizes equal and bytes equal (unrolled, loop-free) */
static inline bool json_sv_eq_lit(iora_sv a, const char *lit, size_t len)
{
  IORA_ASSERT(len <= 8, "literal of at most 8 bytes");
  if (a.n != len) return false;
  return (len < 1 || a.p[0] == lit[0]) && (len < 2 || a.p[1] == lit[1]) && (len < 3 || a.p[2] == lit[2]) && (len < 4 || a.p[3] == lit[3])
      && (len < 5 || a.p[4] == lit[4]) && (len < 6 || a.p[5] == lit[5]) && (len < 7 || a.p[6] == lit[6]) && (len < 8 || a.p[7] == lit[7]);
}

/* ---- RFC 8259 character classes as by-value macros (no char literals: the contract parser trips on them) ---- */
#define JSON_IS_DIGIT(c) ((c) >= (char)48 && (c) <= (char)57)
#define JSON_IS_WS(c) ((c) == (char)32 || (c) == (char)9 || (c) == (char)10 || (c) == (char)13)            /* RFC 8259 section 2: ws */
#define JSON_IS_CSPACE(c) ((c) == (char)32 || ((c) >= (char)9 && (c) <= (char)13))                         /* std::isspace, "C" locale */
#define JSON_IS_HEX(c) (JSON_IS_DIGIT(c) || ((c) >= (char)65 && (c) <= (char)70) || ((c) >= (char)97 && (c) <= (char)102))
#define JSON_HEXVAL(c) ((uint32_t)(JSON_IS_DIGIT(c) ? (c) - 48 : ((c) >= (char)97 ? (c) - 87 : (c) - 55)))

/* ---- number conversion stubs: value not modelled; argument must be exactly the scanned token ---- */
size_t GJ_num_start;            /* ghost: offset at which the number token starts (bound by the contract to old(_pos)) */
unsigned GJ_conv_calls;         /* ghost: number of conversion calls */
typedef struct { const char *ptr; int ec; } json_fcres;
#define JSON_EC_OUT_OF_RANGE 34   /* std::errc::result_out_of_range (ERANGE) */
/* ghost record of the integer conversion and of the floating conversion, so that a contract can say WHICH result ends up in the value */
_Bool GJ_fc_called; int GJ_fc_ec; int64_t GJ_fc_val;      /* from_chars: called?, its error code, the value it wrote (ec == 0 only) */
unsigned GJ_sd_calls; double GJ_sd_val;                  /* strtod: number of calls, the value returned last */
#ifndef IORA_NATIVE
double nondet_double(void);
#endif
#define JSON_TOKEN_IS(self, p_, n_) (__CPROVER_same_object((p_), (self)->_text.p) && (p_) == (self)->_text.p + GJ_num_start \
                                     && GJ_num_start <= (self)->_pos && (n_) == (self)->_pos - GJ_num_start)
#ifdef IORA_NATIVE
/* differential run (tools/diffrun.py): REAL conversions with the semantics of the library calls in the code, so that the numeric
 * value can be compared with the real C++ too. Ghost checks are proof obligations, not behaviour: absent here. */
#include <errno.h>
static inline double json_strtod_sv(iora_sv s, const JsonParser *self)
{ /* std::strtod(std::string(numStr).c_str(), &endPtr) */
  (void)self;
  char *tmp = (char *)malloc(s.n + 1); memcpy(tmp, s.p, s.n); tmp[s.n] = 0;
  double d = strtod(tmp, NULL); free(tmp);
  GJ_conv_calls++;
  return d;
}
static inline json_fcres json_from_chars_i64(const char *first, const char *last, int64_t *out, const JsonParser *self)
{ /* std::from_chars(first, last, int64&), base 10: [-]digits; no digits: invalid_argument, ptr = first, value untouched;
     out of range: result_out_of_range, ptr = end of the digit run, value untouched */
  (void)self;
  json_fcres r; const char *p = first; bool neg = false, ovf = false; uint64_t v = 0;
  GJ_conv_calls++;
  if (p < last && *p == '-') { neg = true; p++; }
  const uint64_t maxmag = neg ? 9223372036854775808ULL : 9223372036854775807ULL;
  const char *d0 = p;
  while (p < last && *p >= '0' && *p <= '9') {
    uint64_t dg = (uint64_t)(*p - '0');
    if (!ovf) { if (v > (maxmag - dg) / 10) ovf = true; else v = v * 10 + dg; }
    p++;
  }
  if (p == d0) { r.ptr = first; r.ec = EINVAL; return r; }
  if (ovf) { r.ptr = p; r.ec = ERANGE; return r; }
  *out = neg ? (int64_t)(0 - v) : (int64_t)v;
  r.ptr = p; r.ec = 0; return r;
}
#else
static inline double json_strtod_sv(iora_sv s, const JsonParser *self)
{
  IORA_ASSERT(JSON_TOKEN_IS(self, s.p, s.n), "strtod is applied to exactly the scanned number token [start,_pos)");
  GJ_conv_calls++;
  double d = nondet_double();
  IORA_ASSUME(d == d);                 /* environment model: strtod of a number token is never NaN */
  if (GJ_sd_calls < 1000) GJ_sd_calls++;
  GJ_sd_val = d;
  return d;
}
static inline json_fcres json_from_chars_i64(const char *first, const char *last, int64_t *out, const JsonParser *self)
{
  IORA_ASSERT(__CPROVER_same_object(first, last) && first <= last && JSON_TOKEN_IS(self, first, (size_t)(last - first)),
              "from_chars is applied to exactly the scanned number token [start,_pos)");
  /* integer path: the token must be  [ minus ] 1*DIGIT  -- std::from_chars would stop silently at a '.', 'e' or 'E' (the code never
   * looks at result.ptr), i.e. a number with fraction or exponent must not come down this path (witness GK) */
  IORA_ASSERT(!(GJ_num_start <= GK && GK < self->_pos) || JSON_IS_DIGIT(self->_text.p[GK]) || (GK == GJ_num_start && self->_text.p[GK] == (char)45),
              "from_chars (integer path) receives a pure integer -?digits: no '.', 'e', 'E' in the scanned token");
  GJ_conv_calls++;
  /* environment model of std::from_chars on a pure integer token (asserted above): either it converts (ec == 0, *out written) or the
   * value does not fit int64 (result_out_of_range, *out NOT written); invalid_argument cannot occur on -?1*DIGIT */
  json_fcres r; r.ptr = last; r.ec = nondet_bool() ? 0 : JSON_EC_OUT_OF_RANGE;
  GJ_fc_called = 1; GJ_fc_ec = r.ec;
  if (r.ec == 0) { *out = nondet_i64(); GJ_fc_val = *out; }
  return r;
}
#endif

#endif
