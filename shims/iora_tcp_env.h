/* Type environment shared by the TcpEngine units (tcp_write, tcp_close, tcp_read): the C image of the parts of
 * `class TcpEngine` (include/iora/network/detail/tcp_engine.hpp) that writePending / doSend / updateInterest / closeNow /
 * readAvail / process() touch. Included from each unit's pre.h AFTER the extracted enums (TlsMode, TlsState, TransportError,
 * CloseOrigin). Requires iora_monitor.h, iora_slice.h, iora_map1.h.
 *
 *   std::deque<ByteBuffer> wq           -> iora_sdeque (contiguous slice deque, unbounded)       ByteBuffer -> iora_slice
 *   unordered_map<SessionId, unique_ptr<Session>> _sessions -> iora_sessmap (owning witness-key map; erase frees the session)
 *   std::atomic counters (AtomicStats)  -> plain integers (R10: sequential semantics only)
 *   std::function callbacks (_cbs.onX)  -> bool "is set"; the call goes to a ghost stub (R21)
 *   std::mutex / std::shared_mutex      -> iora_mutex (ghost `held`)
 *   MonoTime                            -> opaque tick count; MonoClock::now() is a nondeterministic value
 *   std::string message arguments       -> const char * (text is carried, never inspected)
 *   Session::peer / peerLen / peerKey   -> omitted (no function under contract reads them)                                      */
#ifndef IORA_TCP_ENV_H
#define IORA_TCP_ENV_H

/* a `do { } while (0)` inside a contract loop counts as an inner loop for the plain (non-DFCC) --apply-loop-contracts */
#if !defined(IORA_CANARIES)
#undef IORA_CANARY_LOOP
#define IORA_CANARY_LOOP(msg) ((void)0)
#endif

typedef uint64_t SessionId;
typedef int64_t MonoTime;
typedef struct { int64_t ticks; } iora_duration;
static inline int64_t iora_duration_count(const iora_duration *d) { return d->ticks; }

typedef struct Session {
  SessionId id; int fd;
  TlsMode tlsMode; SSL *ssl; TlsState tlsState; MonoTime tlsStart; bool tlsWantWrite;
  iora_sdeque wq; bool wantWrite; bool closed;
  MonoTime created, lastActivity;
  bool connectPending; MonoTime connectStart; MonoTime lastWriteProgress;
  uint64_t connectTimeoutId, handshakeTimeoutId, writeStallTimeoutId;
} Session;
typedef struct { SessionId sid; iora_slice payload; } SendReq;

typedef struct { size_t ioReadChunk; size_t maxWriteQueue; bool closeOnBackpressure; bool useEdgeTriggered;
                 iora_duration connectTimeout, handshakeTimeout, writeStallTimeout; struct { bool enabled; } clientTls, serverTls; } TransportConfig;
typedef struct { uint64_t accepted, connected, closed, errors, tlsHandshakes, tlsFailures, bytesIn, bytesOut, epollWakeups, commands,
                 gcRuns, gcClosedIdle, gcClosedAged, backpressureCloses; size_t sessionsCurrent, sessionsPeak; } AtomicStats;
typedef struct { bool onAccept, onConnect, onData, onClose, onError; } Callbacks;      /* std::function: empty or set */
typedef bool iora_cbcopy;                                                              /* decltype(_cbs.onX) local copy */
typedef struct iora_timer_service TimerService;

IORA_MAP1(iora_sessmap, SessionId, Session *)
IORA_MAP1(iora_tagmap, int, void *)            /* _fdTags: fd -> unique_ptr<Tag> */

#ifndef IORA_TCP_CUSTOM_ENGINE      /* a unit may define its own image of class TcpEngine (other container models) before including this header */
typedef struct TcpEngine {
  TransportConfig _config; AtomicStats _atomicStats;
  int _epollFd;
  iora_mutex _cbMutex; Callbacks _cbs;
  iora_mutex _sessionRwMutex;
  iora_sessmap _sessions; iora_tagmap _fdTags;
  TimerService *_timerService;
} TcpEngine;
#endif

/* ---------------- epoll ---------------- */
#define EPOLLIN 0x001u
#define EPOLLPRI 0x002u
#define EPOLLOUT 0x004u
#define EPOLLERR 0x008u
#define EPOLLHUP 0x010u
#define EPOLLET (1u << 31)
#define EPOLL_CTL_ADD 1
#define EPOLL_CTL_DEL 2
#define EPOLL_CTL_MOD 3
typedef struct { uint32_t events; struct { int fd; } data; } epoll_event;
#define epoll_event_DEFAULT ((epoll_event){0, {0}})
/* ghost record of the last interest registration: the mask the kernel holds for G_ep_fd */
int G_ep_fd; uint32_t G_ep_events; int G_ep_op; int G_ep_epfd; unsigned G_ep_mods, G_ep_dels;
#define IORA_EPOLL_GHOSTS G_ep_fd, G_ep_events, G_ep_op, G_ep_epfd, G_ep_mods, G_ep_dels, G_seq, G_ep_seq      /* for assigns clauses */
unsigned G_seq, G_ep_seq;             /* ghost event clock (ordering clauses): every recorded environment event takes the next tick */
#ifndef IORA_NATIVE
unsigned nondet_unsigned(void);
/* int epoll_ctl(int epfd, int op, int fd, struct epoll_event *event): records what was registered. ENV: the call succeeds
 * (the code under contract ignores the result of EPOLL_CTL_MOD/DEL; a failing epoll_ctl on a registered fd is outside the model) */
static inline int iora_epoll_ctl(int epfd, int op, int fd, epoll_event *ev)
{
  G_errno = nondet_int();                      /* a system call may overwrite errno */
  G_ep_epfd = epfd; G_ep_op = op; G_ep_fd = fd; G_ep_seq = ++G_seq;
  if (op == EPOLL_CTL_DEL) { G_ep_events = 0; if (G_ep_dels < 0x7fffffffu) G_ep_dels++; }
  else { IORA_ASSERT(ev != 0, "epoll_ctl(ADD/MOD): event argument present"); IORA_ASSERT(ev->data.fd == fd, "epoll_ctl: the event's tag is the fd it is registered for (handleFdEvent looks the session up by it)");
         G_ep_events = ev->events; if (G_ep_mods < 0x7fffffffu) G_ep_mods++; }
  return 0;
}
static inline MonoTime iora_mono_now(void) { MonoTime t; return t; }
/* close(fd), SSL_shutdown, SSL_free, TimerService::cancel: ghost records (count, argument, tick) */
unsigned G_fdclose_calls, G_fdclose_seq; int G_fdclose_fd;
unsigned G_sslshut_calls, G_sslshut_seq, G_sslfree_calls, G_sslfree_seq; SSL *G_sslshut_arg, *G_sslfree_arg;
unsigned G_tcancel_calls; uint64_t G_TID; unsigned G_tcancel_tid_calls;      /* G_TID: witness timer id (unconstrained) */
static inline int iora_close(int fd) { G_errno = nondet_int(); if (G_fdclose_calls < 0x7fffffffu) G_fdclose_calls++; G_fdclose_fd = fd; G_fdclose_seq = ++G_seq; return nondet_int(); }
static inline int iora_SSL_shutdown(SSL *ssl) { IORA_ASSERT(ssl != 0, "SSL_shutdown(): non-null SSL object"); IORA_ASSERT(G_sslfree_calls == 0 || G_sslfree_arg != ssl, "SSL_shutdown(): object not freed yet");
  G_errno = nondet_int(); if (G_sslshut_calls < 0x7fffffffu) G_sslshut_calls++; G_sslshut_arg = ssl; G_sslshut_seq = ++G_seq; return nondet_int(); }
static inline void iora_SSL_free(SSL *ssl) { if (G_sslfree_calls < 0x7fffffffu) G_sslfree_calls++; G_sslfree_arg = ssl; G_sslfree_seq = ++G_seq; }
static inline void iora_timer_cancel(TimerService *ts, uint64_t id)
{ IORA_ASSERT(ts != 0, "TimerService::cancel through a non-null service"); IORA_ASSERT(id != 0, "only scheduled timers (id != 0) are cancelled");
  if (G_tcancel_calls < 0x7fffffffu) G_tcancel_calls++; if (id == G_TID && G_tcancel_tid_calls < 0x7fffffffu) G_tcancel_tid_calls++; }
/* plain harnesses: CBMC gives _Bool fields of nondeterministic objects arbitrary BYTE values (2, 4, ...) whose truth value is then
 * read inconsistently; make every _Bool field a proper nondeterministic boolean */
static inline void iora_canon_session(Session *s)
{ s->tlsWantWrite = nondet_bool(); s->wantWrite = nondet_bool(); s->closed = nondet_bool(); s->connectPending = nondet_bool(); }
#ifndef IORA_TCP_CUSTOM_ENGINE
static inline void iora_canon_engine(TcpEngine *e)
{ e->_config.closeOnBackpressure = nondet_bool(); e->_config.useEdgeTriggered = nondet_bool();
  e->_cbs.onAccept = nondet_bool(); e->_cbs.onConnect = nondet_bool(); e->_cbs.onData = nondet_bool(); e->_cbs.onClose = nondet_bool(); e->_cbs.onError = nondet_bool();
  e->_cbMutex.held = nondet_bool(); e->_sessionRwMutex.held = nondet_bool(); e->_sessions.has = nondet_bool(); e->_fdTags.has = nondet_bool(); }
#endif
#endif
#endif
