/* C type environment shared by the DNS units (property C19): the structs of dns_types.hpp as the parsers see them.
 * Included from a unit's pre.h (after the extracted enums DnsOpcode/DnsResponseCode/DnsType/DnsClass).
 * std::string members the parsers only write are accumulators (iora_ostr); DnsResourceRecord::rdata is a view (iora_bv):
 * `rdata.assign(first, last)` makes it alias the copied byte range (iora_bv_assign_range). */
#ifndef IORA_DNS_TYPES_H
#define IORA_DNS_TYPES_H
typedef struct { uint16_t id; bool qr; DnsOpcode opcode; bool aa, tc, rd, ra; uint8_t z; DnsResponseCode rcode;
                 uint16_t qdcount, ancount, nscount, arcount; } DnsHeader;
/* DnsHeader(): id 0, flags false except rd = true, opcode Query, rcode NOERROR, counts 0 */
#define DnsHeader_DEFAULT ((DnsHeader){ 0, false, 0, false, false, true, false, 0, 0, 0, 0, 0, 0 })
typedef struct { iora_ostr qname; DnsType qtype; DnsClass qclass; } DnsQuestion;
#define DnsQuestion_DEFAULT ((DnsQuestion){ {0, 0}, DnsType_A, DnsClass_IN })
typedef struct { iora_ostr name; DnsType type; DnsClass cls; uint32_t ttl; uint16_t rdlength; iora_bv rdata; } DnsResourceRecord;
#define DnsResourceRecord_DEFAULT ((DnsResourceRecord){ {0, 0}, DnsType_A, DnsClass_IN, 0, 0, {0, 0} })

/* typed records: `XRecord record(rr.name, ..., rr.ttl)` sets type = X, class = IN, ttl = rr.ttl; the owner name copy is not modelled */
typedef struct { DnsType type; DnsClass cls; uint32_t ttl; uint16_t priority, weight, port; iora_ostr target; } SrvRecord;
#define SrvRecord_make(t) ((SrvRecord){ DnsType_SRV, DnsClass_IN, (t), 0, 0, 0, {0, 0} })
typedef struct { DnsType type; DnsClass cls; uint32_t ttl; uint16_t order, preference; iora_ostr flags, service, regexp, replacement; } NaptrRecord;
#define NaptrRecord_make(t) ((NaptrRecord){ DnsType_NAPTR, DnsClass_IN, (t), 0, 0, {0, 0}, {0, 0}, {0, 0}, {0, 0} })
typedef struct { DnsType type; DnsClass cls; uint32_t ttl; iora_ostr cname; } CnameRecord;
#define CnameRecord_make(t) ((CnameRecord){ DnsType_CNAME, DnsClass_IN, (t), {0, 0} })
typedef struct { DnsType type; DnsClass cls; uint32_t ttl; uint16_t preference; iora_ostr exchange; } MxRecord;
#define MxRecord_make(t) ((MxRecord){ DnsType_MX, DnsClass_IN, (t), 0, {0, 0} })
typedef struct { DnsType type; DnsClass cls; uint32_t ttl; iora_ostr ptrdname; } PtrRecord;
#define PtrRecord_make(t) ((PtrRecord){ DnsType_PTR, DnsClass_IN, (t), {0, 0} })
typedef struct { DnsType type; DnsClass cls; uint32_t ttl; iora_ostr mname, rname; uint32_t serial, refresh, retry, expire, minimum; } SoaRecord;
#define SoaRecord_make(t) ((SoaRecord){ DnsType_SOA, DnsClass_IN, (t), {0, 0}, {0, 0}, 0, 0, 0, 0, 0 })
/* std::vector<std::string> text of a TXT record: number of strings + total bytes + the last string pushed (witness of the step) */
typedef struct { size_t n; size_t bytes; iora_ostr last; } iora_strlist;
static inline void iora_strlist_push_back(iora_strlist *l, iora_ostr s)
{ IORA_ASSERT(l->n < (size_t)-1 && s.n <= (size_t)-1 - l->bytes, "vector growth"); l->n++; l->bytes += s.n; l->last = s; }
typedef struct { DnsType type; DnsClass cls; uint32_t ttl; iora_strlist text; } TxtRecord;
#define TxtRecord_make(t) ((TxtRecord){ DnsType_TXT, DnsClass_IN, (t), {0, 0, {0, 0}} })
typedef struct { DnsType type; DnsClass cls; uint32_t ttl; iora_ostr address; } ARecord;
typedef ARecord AAAARecord;
/* std::vector<X> of a DnsResult that the parser only appends to: element count (contents are decided per element by the parsers' own contracts) */
typedef struct { size_t n; } iora_cntlist;
static inline void iora_cntlist_push_back(iora_cntlist *l) { IORA_ASSERT(l->n < (size_t)-1, "vector growth"); l->n++; }
static inline void iora_cntlist_reserve(iora_cntlist *l, size_t n) { (void)l; (void)n; }
typedef struct { DnsHeader header; iora_cntlist questions, answers, authority, additional,
                 a_records, aaaa_records, srv_records, naptr_records, cname_records, mx_records, txt_records, ptr_records, soa_records; } DnsResult;
#define DnsResult_DEFAULT ((DnsResult){ DnsHeader_DEFAULT, {0}, {0}, {0}, {0}, {0}, {0}, {0}, {0}, {0}, {0}, {0}, {0}, {0} })
/* temporary that receives `parseXRecord(...)` before `result.x_records.push_back(..)`: one member per parser, named after it */
typedef union { ARecord parseARecord; AAAARecord parseAAAARecord; SrvRecord parseSrvRecord; NaptrRecord parseNaptrRecord; CnameRecord parseCnameRecord;
                MxRecord parseMxRecord; TxtRecord parseTxtRecord; PtrRecord parsePtrRecord; SoaRecord parseSoaRecord; } iora_anyrec;
#endif
