/* Contract of DnsMessage::decodeName shared by the DNS units (property C19):
 *   unit dns_name   PROVES it   (proof "decodeName": decodeName enforced against it, with decodeNameWithLoopDetection
 *                                replaced by its own proved contract);
 *   unit dns_rdata  USES it     (--replace-call-with-contract decodeName/decodeName_wrapper_contract in the record parsers).
 * One text, included by both, so the two cannot drift apart. */
#ifndef IORA_DNS_CONTRACTS_H
#define IORA_DNS_CONTRACTS_H

/* message size bound: taken from the call sites (UDP datagram / 16-bit TCP length prefix: <= 65535), proved for 2^32 */
#define DN_MAX_MSG ((size_t)1 << 32)
/* RFC 1035 2.3.4 / 3.1 limits (NOT the library's constants): label <= 63 octets, name <= 255 octets on the wire.
 * The decoder's totalLength counts label octets + length octets without the terminating zero: wire = totalLength + 1. */
#define RFC_MAX_LABEL 63
#define RFC_MAX_TOTAL 254            /* largest totalLength of a name of 255 wire octets */
#define RFC_MAX_TEXT 253             /* its dotted text form */

/* spec: big-endian fields of the wire format */
#define U16BE(d, o) ((uint16_t)((((uint16_t)(d)[(o)]) << 8) | (d)[(o) + 1]))
#define U32BE(d, o) ((((uint32_t)(d)[(o)]) << 24) | (((uint32_t)(d)[(o) + 1]) << 16) | (((uint32_t)(d)[(o) + 2]) << 8) | (uint32_t)(d)[(o) + 3])

#define DECODENAME_REQUIRES \
__CPROVER_requires(IORA_TRUE && iora_exc == EXC_NONE && size <= DN_MAX_MSG && offset <= size && __CPROVER_is_fresh(data, size)) \
__CPROVER_requires(__CPROVER_is_fresh(name, sizeof(*name)) && G_msg_size == size)
#define DECODENAME_ENSURES \
/* W1 a decoded name ends inside the message, at or after its start, and is at most 253 characters */ \
__CPROVER_ensures(iora_exc == EXC_NONE ==> (__CPROVER_return_value <= size && __CPROVER_return_value >= offset && name->n <= RFC_MAX_TEXT)) \
/* W2 the only error is DnsParseException */ \
__CPROVER_ensures(iora_exc == EXC_NONE || iora_exc == EXC_DnsParseException) \
/* W3 nothing at the offset: empty name, nothing consumed */ \
__CPROVER_ensures(offset == size ==> (iora_exc == EXC_NONE && __CPROVER_return_value == offset && name->n == 0)) \
/* W4 a name needs at least one octet */ \
__CPROVER_ensures((iora_exc == EXC_NONE && offset < size) ==> __CPROVER_return_value > offset)

/* the form PROVED in unit dns_name */
size_t decodeName_wrapper_contract(const uint8_t *data, size_t offset, size_t size, iora_ostr *name)
DECODENAME_REQUIRES
__CPROVER_assigns(iora_exc, *name)
DECODENAME_ENSURES
;

/* the form USED in unit dns_rdata: the same clauses (same macros) plus a ghost that remembers the returned offset, so that
 * the callers' contracts can name "the offset where the name ended" (G_name_end) instead of subtracting from their own
 * result (and G_name_start: where it was asked to decode) (measured: the backward form `U16BE(data, ret - 10)` costs > 400 s, the forward form `U16BE(data, G_name_end)` 10 s).
 * G_name_end is verification-only state: no extracted code reads or writes it, so adding the write changes no behaviour
 * (trusted step, listed in trusted_base). */
size_t G_name_end;      /* ghost: what the last decodeName call returned */
size_t G_name_start;    /* ghost: the offset the last decodeName call was asked to decode at */
size_t decodeName_use_contract(const uint8_t *data, size_t offset, size_t size, iora_ostr *name)
DECODENAME_REQUIRES
__CPROVER_assigns(iora_exc, *name, G_name_end, G_name_start)
DECODENAME_ENSURES
__CPROVER_ensures(G_name_end == __CPROVER_return_value && G_name_start == offset)
;
#endif
