/* std::vector<uint8_t> used as a FIFO byte buffer, CONTENT-ABSTRACTED (DESIGN 2.2 iora_slice) and GUARDED by a mutex.
 *
 *   The vector IS the interval [lo, hi) of positions of a ghost byte stream: its k-th byte is stream byte lo+k, size() == hi - lo.
 *   Pointers / iterators into a buffer are stream positions (iora_spos): begin() == data() == lo, end() == hi, p + n is position arithmetic.
 *   Because the CONTENT of the vector is, by construction, "the stream bytes lo..hi-1 in order", the only way code can lose,
 *   duplicate or reorder bytes is through an operation whose position arguments do not line up - and every such operation
 *   asserts that they do:
 *     insert(pos, first, last)   SL1 pos == end() (append only)   SL2 first == hi (the appended bytes are the NEXT stream bytes: no gap)
 *     erase(first, last)         SL3 first == begin() (only a prefix is removed), range inside the vector
 *     clear()                    the buffered bytes are discarded: lo = hi (callers that must not lose bytes move them out first)
 *     move-assignment            dst takes [lo,hi); the moved-from vector is EMPTY at position hi (libstdc++ behaviour; the standard says
 *                                "valid but unspecified" - listed in trusted_base of the units that use it)
 *   `guard` (ghost): the mutex protecting the vector, or NULL for a thread-local vector. Every access asserts LK3 (mutex held).
 * Requires iora_monitor.h. */
#ifndef IORA_GSLICE_H
#define IORA_GSLICE_H
typedef size_t iora_spos;
typedef struct { size_t lo, hi; const iora_mutex *guard; } iora_gslice;
#define iora_gslice_DEFAULT ((iora_gslice){0, 0, 0})
#define IORA_GSLICE_GUARDED(s) IORA_ASSERT((s)->guard == 0 || (s)->guard->held, "LK3 shared byte buffer accessed with its mutex held")
static inline size_t iora_gslice_size(const iora_gslice *s) { IORA_GSLICE_GUARDED(s); return s->hi - s->lo; }
static inline bool iora_gslice_empty(const iora_gslice *s) { IORA_GSLICE_GUARDED(s); return s->hi == s->lo; }
static inline iora_spos iora_gslice_begin(const iora_gslice *s) { IORA_GSLICE_GUARDED(s); return s->lo; }
static inline iora_spos iora_gslice_end(const iora_gslice *s) { IORA_GSLICE_GUARDED(s); return s->hi; }
static inline iora_spos iora_gslice_data(const iora_gslice *s) { IORA_GSLICE_GUARDED(s); return s->lo; }
static inline void iora_gslice_insert(iora_gslice *s, iora_spos pos, iora_spos first, iora_spos last)
{
  IORA_GSLICE_GUARDED(s);
  IORA_ASSERT(first <= last, "vector::insert(pos, first, last): [first, last) is a valid range");
  IORA_ASSERT(pos == s->hi, "SL1 bytes are inserted only at the end of the buffer (append)");
  IORA_ASSERT(first == s->hi, "SL2 the appended bytes are the stream bytes directly following the buffered ones (no gap, no duplicate, no reordering)");
  s->hi = last;
}
static inline void iora_gslice_erase(iora_gslice *s, iora_spos first, iora_spos last)
{
  IORA_GSLICE_GUARDED(s);
  IORA_ASSERT(s->lo <= first && first <= last && last <= s->hi, "vector::erase(first, last): range inside the vector");
  IORA_ASSERT(first == s->lo, "SL3 only a prefix of the buffer is erased");
  s->lo = last;
}
static inline void iora_gslice_clear(iora_gslice *s) { IORA_GSLICE_GUARDED(s); s->lo = s->hi; }
/* dst = std::move(src) */
static inline void iora_gslice_move_assign(iora_gslice *dst, iora_gslice *src)
{
  IORA_GSLICE_GUARDED(src); IORA_GSLICE_GUARDED(dst);
  dst->lo = src->lo; dst->hi = src->hi;
  src->lo = src->hi;
}
#endif
