/* Type environment shared by the Transport sync units (sync_ondata, sync_receive, sync_connect): the C image of
 * `struct Transport::Impl` (include/iora/network/transport_impl.hpp) restricted to the state syncMutex / callbackMutex protect.
 * Requires iora_monitor.h, iora_gslice.h, iora_gmap1.h.
 *
 *   std::mutex                       -> iora_mutex (ghost `held`)            std::condition_variable -> iora_cv (notification counters)
 *   std::vector<uint8_t> data        -> iora_gslice (interval of the ghost byte stream of the session, guarded by syncMutex)
 *   unordered_map<SessionId, ...>    -> witness-key maps (iora_gmap1.h), guarded by syncMutex
 *   shared_ptr<SyncReceiveBuffer>    -> SyncReceiveBuffer* (ownership / lifetime not modelled: objects live for the whole proof)
 *   std::function callbacks          -> iora_fn {set}; the call goes to a ghost stub defined by each unit (R21)
 *   Result<T, TransportErrorInfo>    -> iora_result {ok, value, code} (R20: message text dropped)                                   */
#ifndef IORA_TSYNC_H
#define IORA_TSYNC_H
typedef uint64_t SessionId;
typedef struct { iora_spos pos; size_t n; } iora_chunk;      /* BufferView onto received bytes: stream bytes [pos, pos+n) */
static inline iora_spos iora_chunk_data(const iora_chunk *c) { return c->pos; }
static inline size_t iora_chunk_size(const iora_chunk *c) { return c->n; }
typedef struct { int t; } iora_time;                          /* steady_clock::time_point / durations: opaque */
typedef struct { bool set; } iora_fn;                         /* std::function<...>: empty or holding a user callable */
#define iora_fn_DEFAULT ((iora_fn){0})

/* R20 result idiom */
typedef struct { bool ok; uint64_t value; int code; } iora_result;
static inline iora_result iora_result_ok(uint64_t v) { iora_result r = { 1, v, 0 }; return r; }
static inline iora_result iora_result_err(int code) { iora_result r = { 0, 0, code }; return r; }
static inline bool iora_result_isOk(const iora_result *r) { return r->ok; }
static inline bool iora_result_isErr(const iora_result *r) { return !r->ok; }
static inline int iora_result_errcode(const iora_result *r) { IORA_ASSERT(!r->ok, "Result::error() on an error result"); return r->code; }
static inline uint64_t iora_result_value(const iora_result *r) { IORA_ASSERT(r->ok, "Result::value() on an ok result"); return r->value; }

/* struct Impl::SyncReceiveBuffer (+ ghost guard) */
typedef struct
{
  iora_gslice data; iora_cv cv; bool hasData; bool closed; size_t waiters; bool flushing; bool overflow;
  const iora_mutex *guard;
} SyncReceiveBuffer;
/* every access through a (shared) pointer to a SyncReceiveBuffer goes through this: LK3 */
static inline SyncReceiveBuffer *iora_srb(SyncReceiveBuffer *b)
{ IORA_ASSERT(b->guard->held, "LK3 SyncReceiveBuffer field accessed with syncMutex held"); return b; }

/* struct Impl::SyncConnectOp (+ ghost guard); `result` as iora_result */
/* `abandoned`: HISTORY variable of the monitor reasoning for C04 - "the connectSync caller that registered this record has taken its
 * timeout path (it no longer looks at done/result and has issued, or is about to issue, engine->close(sid))". The source has no such
 * member today (the field is then written only by the harnesses); a repair may introduce one (units/sync_connect/NOTES.md). */
typedef struct { iora_cv cv; bool done; iora_result result; bool abandoned; const iora_mutex *guard; } SyncConnectOp;
static inline SyncConnectOp *iora_sco(SyncConnectOp *o)
{ IORA_ASSERT(o->guard->held, "LK3 SyncConnectOp field accessed with syncMutex held"); return o; }

typedef uint8_t ReadMode_t;
IORA_GMAP1(iora_rmmap, SessionId, ReadMode_t, 0)                           /* readModes: value-initialised ReadMode is Async (= 0, checked in pre.h) */
IORA_GMAP1(iora_rbmap, SessionId, SyncReceiveBuffer *, (SyncReceiveBuffer *)0)   /* receiveBuffers */
IORA_GMAP1(iora_pcmap, SessionId, SyncConnectOp *, (SyncConnectOp *)0)           /* pendingConnects */

/* m.erase(x): unordered_map::erase is overloaded on iterator / key; the C11 _Generic selection keeps the choice the C++ compiler makes */
#define iora_rmmap_erase(m, x) _Generic((x), iora_rmmap_iter: iora_rmmap_erase_it, default: iora_rmmap_erase_key)((m), (x))
#define iora_rbmap_erase(m, x) _Generic((x), iora_rbmap_iter: iora_rbmap_erase_it, default: iora_rbmap_erase_key)((m), (x))
#define iora_pcmap_erase(m, x) _Generic((x), iora_pcmap_iter: iora_pcmap_erase_it, default: iora_pcmap_erase_key)((m), (x))

/* ghost engine (detail::EngineBase behind _impl->engine): records the commands Transport issues */
typedef struct
{
  unsigned connect_calls; unsigned close_calls; SessionId connect_sid; SessionId closed_sid; bool connect_fails;
  bool sync_held_at_connect; bool sync_held_at_close;
} iora_engine;

#ifndef IORA_IMPL_EXTRA
#define IORA_IMPL_EXTRA
#endif
typedef struct
{
  struct { size_t maxSyncReceiveBuffer; bool allowReadModeSwitch; uint8_t protocol; size_t syncBufferGcThreshold; } config;
  iora_engine *engine;
  iora_mutex callbackMutex; iora_fn onConnectCb; iora_fn onDataCb; iora_fn onCloseCb;
  iora_mutex syncMutex;
  iora_pcmap pendingConnects;
  iora_rmmap readModes;
  iora_rbmap receiveBuffers;
  bool shuttingDown; size_t activeReceives; size_t activeFlushes; size_t activeConnects; iora_cv teardownCv;
  IORA_IMPL_EXTRA      /* further members of Impl a unit needs (observer maps, user data): defined by a unit-local header included before this one */
} Impl;


/* ---- monitor invariant of a SyncReceiveBuffer (DESIGN C03), shared by the units ----
 * Ghost byte stream of a session: stream positions count the bytes the engine handed to onData for the session while it was in
 * Sync mode. `arr` = bytes arrived so far.
 * INV holds whenever syncMutex is free:
 *   I1  hasData == (data.size() > 0)                                   (INV-1 of the source)
 *   I3  data is the stream slice [lo, hi) with lo <= hi <= arr          (never bytes that did not arrive)
 *   I4  !overflow && !(shuttingDown && waiters == 0)  ==>  hi == arr    (lossless: every arrived byte is buffered or was delivered;
 *       during teardown a buffer without a parked reader stops buffering - receiveSync's entry fence keeps waiters at 0 from then on)
 *   I5  data.size() <= config.maxSyncReceiveBuffer                      (the configured bound is respected)
 * Reader side: consumers (receiveSync, the setReadMode flusher) only remove a PREFIX of the buffer under the lock (shim obligation SL3), so
 * every byte leaves the buffer exactly once and in stream order; no separate "delivered" counter is needed. */
#define STREAM_LIMIT ((size_t)1 << 62)     /* fewer than 2^62 bytes per session: position arithmetic does not wrap */
#define SRB_INV(b, arr, sd, max) ((b)->data.lo <= (b)->data.hi && (b)->data.hi <= (arr) && (arr) <= STREAM_LIMIT \
  && (b)->hasData == ((b)->data.hi > (b)->data.lo) && (b)->data.hi - (b)->data.lo <= (max) \
  && ((b)->overflow || ((sd) && (b)->waiters == 0) || (b)->data.hi == (arr)))
#define SAME_BUF(a, b) ((a).data.lo == (b).data.lo && (a).data.hi == (b).data.hi && (a).hasData == (b).hasData && (a).closed == (b).closed \
  && (a).waiters == (b).waiters && (a).flushing == (b).flushing && (a).overflow == (b).overflow)

/* reading a callback slot (onDataCb, ...) requires callbackMutex: LK3 */
static inline iora_fn iora_cbslot(const iora_mutex *m, const iora_fn *slot)
{ IORA_ASSERT(m->held, "LK3 callback slot read with callbackMutex held"); return *slot; }
#endif
