/* Iterator-pair idioms on the byte-sequence shims of iora_base.h: begin()/end() as plain pointers and
 * vector::insert(end(), first, last) on an output accumulator.  Inline ghost bodies (DESIGN 2.2). */
#ifndef IORA_ITER_H
#define IORA_ITER_H

static inline const char *iora_sv_begin(const iora_sv *b) { return b->p; }
static inline const char *iora_sv_end(const iora_sv *b) { return b->p + b->n; }
static inline const uint8_t *iora_bv_begin(const iora_bv *b) { return b->p; }
static inline const uint8_t *iora_bv_end(const iora_bv *b) { return b->p + b->n; }

/* v.insert(v.end(), first, last): [first,last) must be a valid range of one object (library precondition) */
static inline void iora_ovec_append_range(iora_ovec *v, const void *first, const void *last)
{
  const uint8_t *f = (const uint8_t *)first; const uint8_t *l = (const uint8_t *)last;
  IORA_ASSERT(__CPROVER_same_object(f, l) && __CPROVER_POINTER_OFFSET(f) <= __CPROVER_POINTER_OFFSET(l), "insert(end, first, last): valid iterator range");
  size_t len = (size_t)(l - f);
  IORA_ASSERT(len == 0 || __CPROVER_r_ok(f, len), "insert(end, first, last): source range readable");
  IORA_ASSERT(len <= (size_t)-1 - v->n, "vector growth");
  if (GK >= v->n && GK - v->n < len) v->gk = f[GK - v->n];
  v->n += len;
}
#endif
