/* Shims shared by the DNS units (property C19): exception codes, network byte order, the visited-pointer set,
 * and the extra std::string / std::vector operations the DNS decoder uses on its output accumulators.
 * Everything here is part of the trusted base of those units (listed in their unit.json). */
#ifndef IORA_DNS_H
#define IORA_DNS_H

/* ---- exceptions (R8): one code per class the DNS code throws; std::exception is the root ---- */
#define EXC_exception 100               /* catch (const std::exception &) catches every code below */
#define EXC_DnsParseException 101       /* class DnsParseException : public std::runtime_error */
#ifndef iora_isa
#define iora_isa(e, T) ((e) != EXC_NONE && ((T) == EXC_exception || (e) == (T)))
#endif

/* ---- <arpa/inet.h>: the target is little-endian x86-64 (the image this runs on), so ntohs/ntohl swap bytes ---- */
static inline uint16_t ntohs(uint16_t v) { return (uint16_t)(((v & 0xFFu) << 8) | ((v >> 8) & 0xFFu)); }
static inline uint32_t ntohl(uint32_t v) { return ((v >> 24) & 0xFFu) | ((v >> 8) & 0x0000FF00u) | ((v & 0x0000FF00u) << 8) | ((v & 0xFFu) << 24); }
static inline uint16_t htons(uint16_t v) { return ntohs(v); }
static inline uint32_t htonl(uint32_t v) { return ntohl(v); }

/* ---- std::string accumulator: operations beyond iora_base.h ---- */
/* name += "lit" */
#define iora_ostr_append_lit(s, lit) iora_ostr_append((s), (lit), sizeof(lit) - 1)
/* str.assign(p, len) */
static inline void iora_ostr_assign(iora_ostr *v, const char *p, size_t len) { v->n = 0; iora_ostr_append(v, p, len); }

/* ---- std::vector<uint8_t> rdata member that is assigned from a byte range of the message and later read:
 * rdata.assign(first, last) ALIASES the range (the vector is a copy of exactly these bytes; nothing writes to it afterwards),
 * so every later rdata[i] is a bounds-checked read of the copied range. ---- */
static inline void iora_bv_assign_range(iora_bv *v, const uint8_t *first, const uint8_t *last)
{
  IORA_ASSERT(__CPROVER_same_object(first, last) && first <= last, "vector::assign(first,last): valid range");
  v->p = first; v->n = (size_t)(last - first);
}

/* ---- std::unordered_set<uint16_t> visitedPointers: witness element GV + element count ----
 * contains(x): exact for the arbitrary witness value GV, nondeterministic for every other value (over-approximation).
 * insert(x):   count grows when x is new. "x is new" is known when the immediately preceding query was contains(x) == false
 *              (the only way the decoder uses the set); otherwise it is nondeterministic.
 * Pigeonhole:  every element ever inserted is a 14-bit value (checked at every insert), so a set has at most 16384 elements;
 *              the nondeterministic answers for non-witness values could exceed that, those impossible runs are cut (assume). */
uint16_t GV;          /* arbitrary witness pointer target */
size_t G_msg_size;    /* bound by the contract to the size of the message whose name is decoded */
#ifdef IORA_NATIVE
/* differential run (tools/diffrun.py): a REAL set of 16-bit values (bitmap, allocated on first use); ghost checks are proof
 * obligations, not behaviour, and are absent here */
typedef struct { size_t count; bool has_gv; unsigned gv_followed; bool q_valid; uint16_t q_val; bool q_res; uint8_t *bits; } iora_u16set;
#define iora_u16set_DEFAULT ((iora_u16set){0, false, 0, false, 0, false, NULL})
static inline bool iora_u16set_contains(iora_u16set *s, uint16_t x) { return s->bits != NULL && ((s->bits[x >> 3] >> (x & 7)) & 1); }
static inline void iora_u16set_insert(iora_u16set *s, uint16_t x)
{
  if (!s->bits) s->bits = (uint8_t *)calloc(8192, 1);
  if (!((s->bits[x >> 3] >> (x & 7)) & 1)) { s->bits[x >> 3] |= (uint8_t)(1u << (x & 7)); s->count++; }
}
#else
typedef struct { size_t count; bool has_gv; unsigned gv_followed; bool q_valid; uint16_t q_val; bool q_res; } iora_u16set;
#define iora_u16set_DEFAULT ((iora_u16set){0, false, 0, false, 0, false})
static inline bool iora_u16set_contains(iora_u16set *s, uint16_t x)
{
  bool r = (x == GV) ? s->has_gv : nondet_bool();
  s->q_valid = true; s->q_val = x; s->q_res = r;
  return r;
}
static inline void iora_u16set_insert(iora_u16set *s, uint16_t x)
{
  /* ghost checks from the property (C19): a followed pointer target lies inside the message and is never followed twice */
  IORA_ASSERT(x <= 0x3FFF, "visited set holds 14-bit pointer targets only");
  IORA_ASSERT((size_t)x < G_msg_size, "D5: a followed compression pointer targets a byte inside the message");
  IORA_ASSERT(!(x == GV && s->has_gv), "D6: a pointer target is never followed twice (loop rejection)");
  bool is_new = (s->q_valid && s->q_val == x) ? !s->q_res : ((x == GV) ? !s->has_gv : nondet_bool());
  if (x == GV) { s->has_gv = true; if (s->gv_followed < 2) s->gv_followed++; }
  if (is_new) { s->count++; IORA_ASSUME(s->count <= 16384); }
  s->q_valid = false;
}

#endif

#endif
