/* Searching / slicing shims for the input string view `iora_sv` (libstdc++ std::string / std::string_view semantics).
 *
 * Slicing (`substr`) is inline ghost code. A `std::string x = s.substr(..)` copy is modelled as a VIEW into the same
 * bytes (sound as long as the source is not mutated while the copy is live: the extractor types the source `iora_sv`,
 * which has no mutating method).
 *
 * The searching functions contain a loop, so they are the exception to "inline": under CBMC they are body-less
 * declarations WITH CONTRACTS and are used through `"replace": [...]` (DESIGN 2.2 / A.8). Each contract states the
 * libstdc++ result exactly: the result is npos or an in-range match at/after `pos`, and it is the FIRST one. The
 * first-occurrence fact is stated without a quantifier at the arbitrary ghost index GF (and at the unit-declared extra
 * ghost terms IORA_FIND_TERM_1/2, default GF): "no match at GF if pos <= GF < result". A client invariant that needs
 * "nothing between a and b" states it at GF as well.
 *
 * `*_impl` are the plain C bodies (used by the native / SEARCH builds); unit `sv_find_shims`-style lemma proofs can
 * enforce each contract on its impl (`--enforce-contract iora_sv_find_ch_impl/iora_sv_find_ch`).
 */
#ifndef IORA_SV_FIND_H
#define IORA_SV_FIND_H

size_t GF;                       /* ghost witness index of the first-occurrence clauses (unconstrained) */
size_t GL;                       /* second unconstrained ghost position for units that need two independent terms */
#ifndef IORA_FIND_TERM_1
#define IORA_FIND_TERM_1 GF
#endif
#ifndef IORA_FIND_TERM_2
#define IORA_FIND_TERM_2 GF
#define IORA_FIND_ONE_TERM
#endif

#define IORA_CH_CR ((char)13)
#define IORA_CH_LF ((char)10)
#define IORA_CH_SP ((char)32)
#define IORA_CH_HT ((char)9)
/* by-value predicates over a view (usable in contracts and loop invariants) */
/* NOTE (measured, CBMC 6.11): several dereferences chained with the short-circuit `&&`/`||` inside ONE contract or
 * invariant expression nest conditionals and multiply the formula (find("\r\n\r\n") contract: 1.77 M clauses with `&&`,
 * 0.19 M with `&`). Byte predicates therefore combine their reads with the non-short-circuit `&` / `|`; range guards
 * stay in front with `==>` / `&&`. */
#define IORA_SV_CRLF_AT(s_, i_) (((s_).p[(i_)] == IORA_CH_CR) & ((s_).p[(i_) + 1] == IORA_CH_LF))
#define IORA_SV_CRLF2_AT(s_, i_) (((s_).p[(i_)] == IORA_CH_CR) & ((s_).p[(i_) + 1] == IORA_CH_LF) & ((s_).p[(i_) + 2] == IORA_CH_CR) & ((s_).p[(i_) + 3] == IORA_CH_LF))
#define IORA_IS_OWS(c_) (((c_) == IORA_CH_SP) | ((c_) == IORA_CH_HT))

/* ---- slicing (inline) ---- */
static inline iora_sv iora_sv_substr(const iora_sv *s, size_t pos, size_t len)
{
  IORA_ASSERT(pos <= s->n, "substr: pos <= size() (std::out_of_range otherwise)");
  iora_sv r;
  r.p = s->p + pos;
  r.n = IORA_MIN(len, s->n - pos);
  return r;
}
static inline iora_sv iora_sv_substr_from(const iora_sv *s, size_t pos) { return iora_sv_substr(s, pos, IORA_NPOS); }

/* ---- plain C bodies ---- */
static inline size_t iora_sv_find_ch_impl(const iora_sv *s, char c, size_t pos)
{
  size_t i = pos;
  while (i < s->n)
  IORA_LC(__CPROVER_assigns(i)
          __CPROVER_loop_invariant(pos <= i && i <= s->n)
          __CPROVER_loop_invariant((pos <= IORA_FIND_TERM_1 && IORA_FIND_TERM_1 < i) ==> s->p[IORA_FIND_TERM_1] != c)
          __CPROVER_loop_invariant((pos <= IORA_FIND_TERM_2 && IORA_FIND_TERM_2 < i) ==> s->p[IORA_FIND_TERM_2] != c)
          __CPROVER_decreases(s->n - i))
  {
    if (s->p[i] == c) return i;
    i++;
  }
  return IORA_NPOS;
}
/* find("\r\n", pos) */
static inline size_t iora_sv_find_crlf_impl(const iora_sv *s, size_t pos)
{
  size_t i = pos;
  while (i < s->n && s->n - i >= 2)
  IORA_LC(__CPROVER_assigns(i)
          __CPROVER_loop_invariant(pos <= i && (i <= s->n || i == pos))
          __CPROVER_loop_invariant((pos <= IORA_FIND_TERM_1 && IORA_FIND_TERM_1 < i) ==> !IORA_SV_CRLF_AT(*s, IORA_FIND_TERM_1))
          __CPROVER_loop_invariant((pos <= IORA_FIND_TERM_2 && IORA_FIND_TERM_2 < i) ==> !IORA_SV_CRLF_AT(*s, IORA_FIND_TERM_2))
          __CPROVER_decreases(s->n - i))
  {
    if (IORA_SV_CRLF_AT(*s, i)) return i;
    i++;
  }
  return IORA_NPOS;
}
/* find("\r\n\r\n", pos) */
static inline size_t iora_sv_find_crlf2_impl(const iora_sv *s, size_t pos)
{
  size_t i = pos;
  while (i < s->n && s->n - i >= 4)
  IORA_LC(__CPROVER_assigns(i)
          __CPROVER_loop_invariant(pos <= i && (i <= s->n || i == pos))
          __CPROVER_loop_invariant((pos <= IORA_FIND_TERM_1 && IORA_FIND_TERM_1 < i) ==> !IORA_SV_CRLF2_AT(*s, IORA_FIND_TERM_1))
          __CPROVER_loop_invariant((pos <= IORA_FIND_TERM_2 && IORA_FIND_TERM_2 < i) ==> !IORA_SV_CRLF2_AT(*s, IORA_FIND_TERM_2))
          __CPROVER_decreases(s->n - i))
  {
    if (IORA_SV_CRLF2_AT(*s, i)) return i;
    i++;
  }
  return IORA_NPOS;
}
/* find_first_not_of(" \t", pos) */
static inline size_t iora_sv_find_first_not_ows_impl(const iora_sv *s, size_t pos)
{
  size_t i = pos;
  while (i < s->n)
  IORA_LC(__CPROVER_assigns(i)
          __CPROVER_loop_invariant(pos <= i && i <= s->n)
          __CPROVER_loop_invariant((pos <= IORA_FIND_TERM_1 && IORA_FIND_TERM_1 < i) ==> IORA_IS_OWS(s->p[IORA_FIND_TERM_1]))
          __CPROVER_loop_invariant((pos <= IORA_FIND_TERM_2 && IORA_FIND_TERM_2 < i) ==> IORA_IS_OWS(s->p[IORA_FIND_TERM_2]))
          __CPROVER_decreases(s->n - i))
  {
    if (!IORA_IS_OWS(s->p[i])) return i;
    i++;
  }
  return IORA_NPOS;
}
/* find_last_not_of(" \t", pos): the last index <= min(pos, n-1) holding a non-OWS byte */
static inline size_t iora_sv_find_last_not_ows_impl(const iora_sv *s, size_t pos)
{
  if (s->n == 0) return IORA_NPOS;
  size_t i = IORA_MIN(pos, s->n - 1) + 1;      /* one past the candidate */
  while (i > 0)
  IORA_LC(__CPROVER_assigns(i)
          __CPROVER_loop_invariant(i <= IORA_MIN(pos, s->n - 1) + 1)
          __CPROVER_loop_invariant((i <= IORA_FIND_TERM_1 && IORA_FIND_TERM_1 <= IORA_MIN(pos, s->n - 1)) ==> IORA_IS_OWS(s->p[IORA_FIND_TERM_1]))
          __CPROVER_loop_invariant((i <= IORA_FIND_TERM_2 && IORA_FIND_TERM_2 <= IORA_MIN(pos, s->n - 1)) ==> IORA_IS_OWS(s->p[IORA_FIND_TERM_2]))
          __CPROVER_decreases(i))
  {
    if (!IORA_IS_OWS(s->p[i - 1])) return i - 1;
    i--;
  }
  return IORA_NPOS;
}

#if defined(IORA_NATIVE) || defined(IORA_SEARCH)
static inline size_t iora_sv_find_ch(const iora_sv *s, char c, size_t pos) { return iora_sv_find_ch_impl(s, c, pos); }
static inline size_t iora_sv_find_crlf(const iora_sv *s, size_t pos) { return iora_sv_find_crlf_impl(s, pos); }
static inline size_t iora_sv_find_crlf2(const iora_sv *s, size_t pos) { return iora_sv_find_crlf2_impl(s, pos); }
static inline size_t iora_sv_find_first_not_ows(const iora_sv *s, size_t pos) { return iora_sv_find_first_not_ows_impl(s, pos); }
static inline size_t iora_sv_find_last_not_ows(const iora_sv *s, size_t pos) { return iora_sv_find_last_not_ows_impl(s, pos); }
#else
#define IORA_FIND_R __CPROVER_return_value
/* Per-proof weakening of the ASSUMED contracts (sound: a weaker assumed postcondition only adds behaviours):
 *   -DIORA_FIND_NO_WITNESS  drops the first-occurrence clauses (proofs that only need "the result is a match")
 *   -DIORA_FIND_NO_CONTENT  additionally drops "the bytes at the result match" (pure range facts: memory-safety and
 *                           arithmetic proofs; keeps the byte array out of the formula - measured 10x faster) */
#ifdef IORA_FIND_NO_CONTENT
#define IORA_FIND_NO_WITNESS
#define IORA_FIND_CONTENT(e_) 1
#else
#define IORA_FIND_CONTENT(e_) (e_)
#endif
#ifdef IORA_FIND_NO_WITNESS
#define IORA_FIND_WITNESS(e_) 1
#else
#define IORA_FIND_WITNESS(e_) (e_)
#endif
#ifdef IORA_FIND_ONE_TERM
#define IORA_FIND_WITNESS2(e_) 1
#else
#define IORA_FIND_WITNESS2(e_) IORA_FIND_WITNESS(e_)
#endif
/* no match at ghost term t_ when it lies in the searched-and-rejected range [pos, result) */
#define IORA_FIRST_CH(t_) ((pos <= (t_) && (t_) < s->n && (IORA_FIND_R == IORA_NPOS || (t_) < IORA_FIND_R)) ==> s->p[(t_)] != c)
size_t iora_sv_find_ch(const iora_sv *s, char c, size_t pos)
  __CPROVER_requires(IORA_TRUE)
  __CPROVER_assigns()
  __CPROVER_ensures(IORA_FIND_R == IORA_NPOS || (pos <= IORA_FIND_R && IORA_FIND_R < s->n))
  __CPROVER_ensures(IORA_FIND_CONTENT(IORA_FIND_R != IORA_NPOS ==> s->p[IORA_FIND_R] == c))
  __CPROVER_ensures(IORA_FIND_WITNESS(IORA_FIRST_CH(IORA_FIND_TERM_1)))
  __CPROVER_ensures(IORA_FIND_WITNESS2(IORA_FIRST_CH(IORA_FIND_TERM_2)));

#define IORA_FIRST_CRLF(t_) ((pos <= (t_) && (t_) < s->n && s->n - (t_) >= 2 && (IORA_FIND_R == IORA_NPOS || (t_) < IORA_FIND_R)) ==> !IORA_SV_CRLF_AT(*s, (t_)))
size_t iora_sv_find_crlf(const iora_sv *s, size_t pos)
  __CPROVER_requires(IORA_TRUE)
  __CPROVER_assigns()
  __CPROVER_ensures(IORA_FIND_R == IORA_NPOS || (pos <= IORA_FIND_R && IORA_FIND_R < s->n && s->n - IORA_FIND_R >= 2))
  __CPROVER_ensures(IORA_FIND_CONTENT(IORA_FIND_R != IORA_NPOS ==> IORA_SV_CRLF_AT(*s, IORA_FIND_R)))
  __CPROVER_ensures(IORA_FIND_WITNESS(IORA_FIRST_CRLF(IORA_FIND_TERM_1)))
  __CPROVER_ensures(IORA_FIND_WITNESS2(IORA_FIRST_CRLF(IORA_FIND_TERM_2)));

#define IORA_FIRST_CRLF2(t_) ((pos <= (t_) && (t_) < s->n && s->n - (t_) >= 4 && (IORA_FIND_R == IORA_NPOS || (t_) < IORA_FIND_R)) ==> !IORA_SV_CRLF2_AT(*s, (t_)))
size_t iora_sv_find_crlf2(const iora_sv *s, size_t pos)
  __CPROVER_requires(IORA_TRUE)
  __CPROVER_assigns()
  __CPROVER_ensures(IORA_FIND_R == IORA_NPOS || (pos <= IORA_FIND_R && IORA_FIND_R < s->n && s->n - IORA_FIND_R >= 4))
  __CPROVER_ensures(IORA_FIND_CONTENT(IORA_FIND_R != IORA_NPOS ==> IORA_SV_CRLF2_AT(*s, IORA_FIND_R)))
  __CPROVER_ensures(IORA_FIND_WITNESS(IORA_FIRST_CRLF2(IORA_FIND_TERM_1)))
  __CPROVER_ensures(IORA_FIND_WITNESS2(IORA_FIRST_CRLF2(IORA_FIND_TERM_2)));

#define IORA_FIRST_NOT_OWS(t_) ((pos <= (t_) && (t_) < s->n && (IORA_FIND_R == IORA_NPOS || (t_) < IORA_FIND_R)) ==> IORA_IS_OWS(s->p[(t_)]))
size_t iora_sv_find_first_not_ows(const iora_sv *s, size_t pos)
  __CPROVER_requires(IORA_TRUE)
  __CPROVER_assigns()
  __CPROVER_ensures(IORA_FIND_R == IORA_NPOS || (pos <= IORA_FIND_R && IORA_FIND_R < s->n))
  __CPROVER_ensures(IORA_FIND_CONTENT(IORA_FIND_R != IORA_NPOS ==> !IORA_IS_OWS(s->p[IORA_FIND_R])))
  __CPROVER_ensures(IORA_FIND_WITNESS(IORA_FIRST_NOT_OWS(IORA_FIND_TERM_1)))
  __CPROVER_ensures(IORA_FIND_WITNESS2(IORA_FIRST_NOT_OWS(IORA_FIND_TERM_2)));

#define IORA_LAST_NOT_OWS(t_) (((t_) < s->n && (t_) <= pos && (IORA_FIND_R == IORA_NPOS || (t_) > IORA_FIND_R)) ==> IORA_IS_OWS(s->p[(t_)]))
size_t iora_sv_find_last_not_ows(const iora_sv *s, size_t pos)
  __CPROVER_requires(IORA_TRUE)
  __CPROVER_assigns()
  __CPROVER_ensures(IORA_FIND_R == IORA_NPOS || (IORA_FIND_R < s->n && IORA_FIND_R <= pos))
  __CPROVER_ensures(IORA_FIND_CONTENT(IORA_FIND_R != IORA_NPOS ==> !IORA_IS_OWS(s->p[IORA_FIND_R])))
  __CPROVER_ensures(IORA_FIND_WITNESS(IORA_LAST_NOT_OWS(IORA_FIND_TERM_1)))
  __CPROVER_ensures(IORA_FIND_WITNESS2(IORA_LAST_NOT_OWS(IORA_FIND_TERM_2)));
#endif

#endif
