/* std::unordered_map<K, V> as a WITNESS-KEY map (DESIGN 2.2 iora_map1), GUARDED by a mutex.
 *
 *   The map tracks presence and value for ONE arbitrary ghost key `wkey` (unconstrained in every harness). Every other key answers
 *   nondeterministically: find() may or may not succeed, and the mapped value is an arbitrary ADMISSIBLE value, produced by the
 *   unit's `M_havoc_other(m)` (e.g. "some buffer that satisfies the monitor invariant"). Writes through another key's slot go to a
 *   scratch slot and are forgotten.  Sound for clauses of the form "for every key k ...": a clause proved for the arbitrary witness key
 *   holds for each key; the frame "entries of other keys are untouched" is the same proof read with wkey != the operated key.
 *   Iterators are small values {map, key, found, pointer to the slot}: `it != m.end()` is `found`, `it->second` is `*it.second`.
 *   `guard` (ghost): the mutex protecting the map; every access asserts LK3 (mutex held).
 *
 *   IORA_GMAP1(M, K, V, VDEFAULT) declares type M, M_iter and the operations; the unit must define `static inline void M_havoc_other(M *m)`
 *   AFTER the macro use (it is forward-declared here).  Requires iora_monitor.h. */
#ifndef IORA_GMAP1_H
#define IORA_GMAP1_H
#define IORA_GMAP1_GUARDED(m) IORA_ASSERT((m)->guard->held, "LK3 shared map accessed with its mutex held")
#define IORA_GMAP1(M, K, V, VDEFAULT) \
typedef struct { K wkey; bool present; V wval; V other; const iora_mutex *guard; } M; \
typedef struct { const M *map; K first; bool found; V *second; } M##_iter; \
static inline void M##_havoc_other(M *m); \
static inline M##_iter M##_find(M *m, K k) \
{ IORA_GMAP1_GUARDED(m); M##_iter it; it.map = m; it.first = k; \
  if (k == m->wkey) { it.found = m->present; it.second = &m->wval; } \
  else { M##_havoc_other(m); it.found = nondet_bool(); it.second = &m->other; } \
  return it; } \
/* m[k]: inserts a value-initialised entry when k is absent */ \
static inline V *M##_index(M *m, K k) \
{ IORA_GMAP1_GUARDED(m); \
  if (k == m->wkey) { if (!m->present) { m->present = 1; m->wval = (VDEFAULT); } return &m->wval; } \
  M##_havoc_other(m); return &m->other; } \
/* m.erase(key) -> number of erased entries */ \
static inline size_t M##_erase_key(M *m, K k) \
{ IORA_GMAP1_GUARDED(m); if (k == m->wkey) { bool p = m->present; m->present = 0; return p ? 1 : 0; } return nondet_bool() ? 1 : 0; } \
/* m.erase(iterator) */ \
static inline void M##_erase_it(M *m, M##_iter it) \
{ IORA_GMAP1_GUARDED(m); IORA_ASSERT(it.map == m && it.found, "unordered_map::erase(iterator): dereferenceable iterator of this map"); \
  if (it.first == m->wkey) m->present = 0; }
/* `it == m.end()` / `it != m.end()` */
#define IORA_GMAP1_IS_END(it, m) (IORA_ASSERT((it).map == &(m), "iterator compared with end() of the map it came from"), IORA_GMAP1_GUARDED(&(m)), !(it).found)
/* `it->second` */
#define IORA_GMAP1_SECOND(it) (*(IORA_ASSERT((it).found, "unordered_map iterator dereferenced only when it is not end()"), IORA_GMAP1_GUARDED((it).map), (it).second))
#endif
