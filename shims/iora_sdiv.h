/* R19 (DESIGN.md 2.1): signed 64-bit `/` by a NON-CONSTANT divisor.
 * Every back end on this image times out on UNSAT facts about 64-bit division by a symbolic divisor, so the
 * division is an environment-style stub: it returns SOME value constrained only by order facts that are true of
 * the mathematical (and the machine) quotient. Everything proved with the stub therefore holds for the real `/`.
 * The first quotient and its operands are recorded in ghosts so that a contract can speak about "floor(a/b)".
 * TRUSTED (list in unit.json trusted_base): the four order facts below. */
#ifndef IORA_SDIV_H
#define IORA_SDIV_H
int64_t G_q0, G_a0, G_b0;   /* first quotient of the call under proof, and its operands */
size_t G_divs;              /* number of divisions executed so far */
#define IORA_I64_MIN ((int64_t)(-0x7fffffffffffffffLL - 1))

static inline int64_t iora_sdiv(int64_t a, int64_t b)
{
  IORA_ASSERT(b != 0, "division by zero");
  IORA_ASSERT(!(a == IORA_I64_MIN && b == -1), "signed division overflow");
#if defined(IORA_NATIVE) || defined(IORA_SEARCH) || defined(IORA_REAL_DIV)
  int64_t q = a / b;        /* concrete/bounded runs use the machine division */
#else
  int64_t q = nondet_i64();
  IORA_ASSUME(!(a >= 0 && b > 0) || (q >= 0 && q <= a));      /* 0 <= a/b <= a            */
  IORA_ASSUME(!(a >= b && b > 0) || q >= 1);                   /* a >= b > 0  ==> a/b >= 1 */
  IORA_ASSUME(!(a >= 0 && a < b) || q == 0);                   /* 0 <= a < b  ==> a/b == 0 */
  IORA_ASSUME(!(a < 0 && b > 0) || (q <= 0 && q >= a));        /* a < 0 < b   ==> a <= a/b <= 0 */
  IORA_ASSUME(!(a >= 1 && b >= 2) || q < a);                   /* b >= 2, a >= 1 ==> a/b < a */
#endif
  if (G_divs == 0) { G_q0 = q; G_a0 = a; G_b0 = b; }
  G_divs++;
  return q;
}
#endif
