/* Content-abstracted byte buffers for code that only MOVES bytes (DESIGN 2.2 iora_slice / iora_sdeque) and the
 * environment stubs of the kernel / OpenSSL write and read calls (send, SSL_write, SSL_get_error, recv, SSL_read).
 *
 * Ghost byte stream of ONE session, write direction: the payloads accepted for the session are consecutive intervals of
 * positions [0, A); G_written = number of positions already handed to the kernel (or to OpenSSL). A ByteBuffer
 * (std::vector<uint8_t>) IS an interval [lo,hi) of that stream: its k-th byte is stream byte lo+k. Because the content of a
 * buffer is by construction "stream bytes lo..hi-1 in order", the only way code can lose, duplicate, reorder or interleave
 * bytes is by passing positions that do not line up - and every operation that consumes positions asserts that they do.
 *
 *   iora_slice   ByteBuffer: size(), data(), begin()/end() iterators, erase(begin(), begin()+n), range construction (first,last)
 *   iora_gptr    result of data(): the stream position of the first byte + the end of the owning buffer (so that a length
 *                handed to the kernel can be bounds-checked against the buffer it points into)
 *   iora_sdeque  std::deque<ByteBuffer> as a CONTIGUOUS slice deque {n, front=[lo,hi), end}: the n buffers tile [front.lo, end)
 *                in queue order; only the front element is explicit, the inner boundaries are chosen nondeterministically when
 *                an element becomes the front (pop_front). Queue length is unbounded. Contiguity is an obligation at every
 *                push site: emplace_back(s) on a non-empty queue asserts s.lo == end, emplace_front(s) asserts s.hi == front.lo.
 *                A push into an EMPTY queue positions the queue (front = s); whether that position is right is decided by the
 *                client's STREAM invariant (front.lo == G_written).
 *   iora_send / iora_SSL_write   PRECONDITION = stream order (S2): the first byte handed over is stream byte G_written and the
 *                length stays inside the buffer. Result: -1 with any errno / any SSL error, or any count 0..len (SSL_write: 1..num);
 *                G_written advances by exactly the accepted count.  These bodies contain __CPROVER_assume: they model the
 *                environment ("the kernel / OpenSSL honour their man-page contracts") and are listed in trusted_base. */
#ifndef IORA_SLICE_H
#define IORA_SLICE_H

/* ---------------- ByteBuffer ---------------- */
typedef struct { size_t lo, hi; } iora_slice;
typedef struct { size_t pos, lim; } iora_gptr;            /* data(): position of byte 0, end of the owning buffer */
typedef struct { size_t pos, lo, hi; } iora_sit;          /* iterator into the buffer [lo,hi) at position pos */
#define iora_slice_DEFAULT ((iora_slice){0, 0})
static inline size_t iora_slice_size(const iora_slice *s) { return s->hi - s->lo; }
static inline bool iora_slice_empty(const iora_slice *s) { return s->hi == s->lo; }
static inline iora_gptr iora_slice_data(const iora_slice *s) { iora_gptr p = { s->lo, s->hi }; return p; }
static inline iora_sit iora_slice_begin(const iora_slice *s) { iora_sit i = { s->lo, s->lo, s->hi }; return i; }
static inline iora_sit iora_slice_end(const iora_slice *s) { iora_sit i = { s->hi, s->lo, s->hi }; return i; }
/* it + n  (n is whatever integer the code adds; a negative or too large n leaves the buffer = undefined behaviour in C++) */
static inline iora_sit iora_sit_add(iora_sit i, long n)
{ IORA_ASSERT(n >= 0 && (size_t)n <= i.hi - i.pos, "vector iterator arithmetic stays inside [begin(), end()]"); i.pos += (size_t)n; return i; }
/* v.erase(first, last) */
static inline void iora_slice_erase(iora_slice *s, iora_sit first, iora_sit last)
{
  IORA_ASSERT(first.lo == s->lo && first.hi == s->hi && last.lo == s->lo && last.hi == s->hi, "vector::erase: iterators of this vector");
  IORA_ASSERT(first.pos <= last.pos, "vector::erase(first, last): valid range");
  IORA_ASSERT(first.pos == s->lo, "SL3 only a prefix of a buffer is erased (erasing inside would splice the stream)");
  s->lo = last.pos;
}
/* ByteBuffer r(first, last): a copy of the bytes [first, last) of another buffer */
static inline iora_slice iora_slice_from_range(iora_sit first, iora_sit last)
{
  IORA_ASSERT(first.lo == last.lo && first.hi == last.hi && first.pos <= last.pos, "vector(first, last): valid range of one vector");
  iora_slice r = { first.pos, last.pos }; return r;
}

/* ---------------- std::deque<ByteBuffer> ---------------- */
typedef struct { size_t n; iora_slice front; size_t end; } iora_sdeque;
/* well-formedness: n buffers, none empty, tiling [front.lo, end) (so there are at most end - front.lo of them) */
#define IORA_SDEQUE_WF(dq) ((dq).n == 0 || ((dq).front.lo < (dq).front.hi && (dq).front.hi <= (dq).end && (dq).n <= (dq).end - (dq).front.lo \
                            && ((dq).n == 1 ? (dq).front.hi == (dq).end : ((dq).front.hi < (dq).end && (dq).n - 1 <= (dq).end - (dq).front.hi))))
#ifdef IORA_SEARCH
size_t IORA_SQ_B[8]; unsigned IORA_SQ_i;      /* bounded SEARCH build: concrete inner boundaries, consumed in order by pop_front */
#endif
static inline bool iora_sdeque_empty(const iora_sdeque *q) { return q->n == 0; }
static inline size_t iora_sdeque_size(const iora_sdeque *q) { return q->n; }
static inline iora_slice *iora_sdeque_front(iora_sdeque *q) { IORA_ASSERT(q->n > 0, "deque::front() on a non-empty deque"); return &q->front; }
static inline void iora_sdeque_pop_front(iora_sdeque *q)
{
  IORA_ASSERT(q->n > 0, "deque::pop_front() on a non-empty deque");
  q->n--;
  q->front.lo = q->front.hi;                 /* the next buffer starts where the popped one ended (contiguity) */
  if (q->n <= 1) q->front.hi = q->end;
#ifdef IORA_SEARCH
  else { IORA_ASSERT(IORA_SQ_i < 8, "search harness: boundary table large enough"); q->front.hi = IORA_SQ_B[IORA_SQ_i++]; }  /* the boundaries the harness chose */
#elif !defined(IORA_NATIVE)
  /* some inner boundary; ABSTRACTION INVARIANT re-established by assumption: the n-1 hidden buffers behind the new front are
   * non-empty (every push site asserts it), so the new front ends early enough to leave each of them at least one position */
  else { size_t h = nondet_size_t(); IORA_ASSUME(h > q->front.lo && h < q->end && q->n - 1 <= q->end - h); q->front.hi = h; }
#endif
}
static inline void iora_sdeque_emplace_back(iora_sdeque *q, iora_slice s)
{
  IORA_ASSERT(s.lo < s.hi, "queued buffers are non-empty (TcpEngine::send drops n == 0 before it enqueues)");
  if (q->n == 0) { q->front = s; q->end = s.hi; q->n = 1; return; }
  IORA_ASSERT(s.lo == q->end, "SQ1 a buffer appended to the write queue continues the stream exactly where the queue ends (no gap, no duplicate)");
  IORA_ASSERT(q->n < SIZE_MAX, "deque growth");
  q->end = s.hi; q->n++;
}
static inline void iora_sdeque_emplace_front(iora_sdeque *q, iora_slice s)
{
  IORA_ASSERT(s.lo < s.hi, "queued buffers are non-empty");
  if (q->n == 0) { q->front = s; q->end = s.hi; q->n = 1; return; }
  IORA_ASSERT(s.hi == q->front.lo, "SQ2 a buffer put in front of the write queue ends exactly where the queue starts");
  IORA_ASSERT(q->n < SIZE_MAX, "deque growth");
  q->front = s; q->n++;        /* the old front becomes an inner boundary */
}

/* ---------------- write side of the environment ---------------- */
size_t G_written;              /* stream positions handed to the kernel / OpenSSL so far */
int G_errno;                   /* errno */
unsigned G_send_calls;         /* calls of send() (saturating) */
unsigned G_sslw_calls;         /* calls of SSL_write() (saturating) */
int G_rd_last;                  /* read side (see below): how the last recv / SSL_read ended */
#define IORA_RD_DATA 1
#define IORA_RD_EOF 2
#define IORA_RD_AGAIN 3          /* EAGAIN / EWOULDBLOCK, or SSL_ERROR_WANT_READ / WANT_WRITE */
#define IORA_RD_ERROR 4
int G_ssl_last_err;             /* the class SSL_get_error gave for the last failed SSL call */
/* the ghosts the write-side stubs assign (for assigns clauses) */
#define IORA_WRITE_ENV_GHOSTS G_written, G_errno, G_send_calls, G_sslw_calls, G_ssl_last_ret, G_ssl_last_err, G_rd_last
int G_ssl_fatal;                /* SEARCH build: the scripted failure was fatal */
int G_ssl_last_ret;            /* return value of the last failed SSL_write/SSL_read (SSL_get_error must be asked about it) */
typedef struct iora_ssl_st SSL;
#ifndef EAGAIN
#define EAGAIN 11
#define EWOULDBLOCK EAGAIN     /* Linux */
#endif
#define MSG_NOSIGNAL 0x4000
#define SSL_ERROR_NONE 0
#define SSL_ERROR_SSL 1
#define SSL_ERROR_WANT_READ 2
#define SSL_ERROR_WANT_WRITE 3
#define SSL_ERROR_SYSCALL 5
#define SSL_ERROR_ZERO_RETURN 6

#ifndef IORA_NATIVE
long nondet_long(void);
#ifdef IORA_SEARCH
/* bounded SEARCH build: the environment answers from a script chosen by the search harness (so that the answers are harness
 * inputs that REPLAY can feed to the interposed syscalls). One byte per send/recv/SSL_write/SSL_read call:
 *   0xFF would block (EAGAIN; TLS: WANT_WRITE for a write, WANT_READ for a read)      0xFD would block, TLS wants the OTHER direction
 *   0xFE fatal error (ECONNRESET / SSL_ERROR_SSL)     0x00 zero (read: EOF / SSL_ERROR_ZERO_RETURN)     k = min(k, len) bytes */
uint8_t IORA_ENV_SCRIPT[8]; unsigned IORA_ENV_i; int G_env_kind, G_ssl_last_op;
#define IORA_ENV_DATA 0
#define IORA_ENV_AGAIN 1
#define IORA_ENV_AGAIN_OTHER 2
#define IORA_ENV_FATAL 3
static inline long iora_env_next(size_t len, int *fatal)
{ uint8_t c = IORA_ENV_i < 8 ? IORA_ENV_SCRIPT[IORA_ENV_i] : 0xFF; IORA_ENV_i++;
  G_env_kind = c == 0xFF ? IORA_ENV_AGAIN : (c == 0xFD ? IORA_ENV_AGAIN_OTHER : (c == 0xFE ? IORA_ENV_FATAL : IORA_ENV_DATA));
  *fatal = (c == 0xFE);
  if (c >= 0xFD) return -1; return (size_t)c < len ? (long)c : (long)len; }
#endif
/* ssize_t send(int fd, const void *buf, size_t len, int flags) */
static inline long iora_send(int fd, iora_gptr buf, size_t len, int flags)
{
  (void)fd; (void)flags;
  IORA_ASSERT(buf.pos == G_written, "S2 send(): the first byte handed to the kernel is the next unsent stream byte (no skip, no duplicate, no reordering)");
  IORA_ASSERT(len <= buf.lim - buf.pos, "S2 send(): the length stays inside the buffer (narrowing of size() to int must not change it)");
  if (G_send_calls < 0x7fffffffu) G_send_calls++;
#ifdef IORA_SEARCH
  int fatal; long r = iora_env_next(len, &fatal);
  if (r < 0) G_errno = fatal ? 104 /* ECONNRESET */ : EAGAIN;
#else
  long r = nondet_long();
  IORA_ASSUME(r >= -1 && (r < 0 || (size_t)r <= len));      /* ENV: -1 or a short/full count */
  if (r < 0) G_errno = nondet_int();                         /* ENV: any errno */
#endif
  if (r >= 0) G_written += (size_t)r;
  return r;
}
/* int SSL_write(SSL *ssl, const void *buf, int num): > 0 = that many bytes were taken, <= 0 = nothing was taken (ask SSL_get_error) */
static inline int iora_SSL_write(SSL *ssl, iora_gptr buf, int num)
{
  IORA_ASSERT(ssl != 0, "SSL_write(): session has an SSL object");
  IORA_ASSERT(buf.pos == G_written, "S2 SSL_write(): the first byte handed to OpenSSL is the next unsent stream byte");
  IORA_ASSERT(num > 0, "SSL_write(): num > 0 (OpenSSL: \"You should not call SSL_write() with num=0\"; a narrowed size() must stay positive)");
  IORA_ASSERT((size_t)num <= buf.lim - buf.pos, "S2 SSL_write(): the length stays inside the buffer");
  if (G_sslw_calls < 0x7fffffffu) G_sslw_calls++;
#ifdef IORA_SEARCH
  int fatal; int r = (int)iora_env_next((size_t)num, &fatal); G_ssl_fatal = fatal; G_ssl_last_op = 0;
#else
  int r = nondet_int();
  IORA_ASSUME(r >= -1 && r <= num);                           /* ENV: <= 0 failure / retry, else a (possibly partial) count */
#endif
  if (r > 0) G_written += (size_t)r;
  else G_ssl_last_ret = r;
  return r;
}
/* int SSL_get_error(const SSL *ssl, int ret): any error class; must be asked about the value the failed call returned */
static inline int iora_SSL_get_error(SSL *ssl, int ret)
{
  IORA_ASSERT(ssl != 0, "SSL_get_error(): session has an SSL object");
  IORA_ASSERT(ret <= 0 && ret == G_ssl_last_ret, "SSL_get_error() is asked about the return value of the failed SSL call");
#ifdef IORA_SEARCH
  int e = G_env_kind == IORA_ENV_FATAL ? SSL_ERROR_SSL
        : (G_env_kind == IORA_ENV_DATA ? (G_ssl_last_op == 1 ? SSL_ERROR_ZERO_RETURN : SSL_ERROR_SSL)          /* the call returned 0 */
        : ((G_env_kind == IORA_ENV_AGAIN) == (G_ssl_last_op == 1) ? SSL_ERROR_WANT_READ : SSL_ERROR_WANT_WRITE));
#else
  int e = nondet_int();
  IORA_ASSUME(e >= SSL_ERROR_SSL && e <= 12);                 /* ENV: ret <= 0 never yields SSL_ERROR_NONE */
#endif
  G_ssl_last_err = e;
  if (G_rd_last == IORA_RD_ERROR) G_rd_last = (e == SSL_ERROR_WANT_READ || e == SSL_ERROR_WANT_WRITE) ? IORA_RD_AGAIN : (e == SSL_ERROR_ZERO_RETURN ? IORA_RD_EOF : IORA_RD_ERROR);
  return e;
}
static inline unsigned long iora_ERR_get_error(void) { unsigned long e; return e; }
static inline void iora_ERR_error_string_n(unsigned long e, char *buf, size_t len)
{ (void)e; IORA_ASSERT(len >= 1, "ERR_error_string_n(): room for the terminator"); buf[len - 1] = 0; }
/* `(int)e` of an OpenSSL error code (unsigned long; OpenSSL 3 sets bit 31 for system errors): implementation-defined modular
 * narrowing, used for reporting only. Written out so that --conversion-check can stay on for the LENGTH casts. */
static inline int iora_narrow_err(unsigned long e)
{ e &= 0xffffffffUL; return e <= 0x7fffffffUL ? (int)e : (int)((long)e - 0x100000000L); }
#endif

/* ---------------- read side of the environment ----------------
 * Read direction of the same session: the kernel / OpenSSL deliver the peer's byte stream in order; G_received = positions taken out
 * of the kernel so far, G_delivered = positions handed to the application's data callback so far.
 *   iora_rbuf   the local `std::vector<uint8_t> buf` readAvail reads into: capacity + "bytes [0,len) hold stream positions [lo, lo+len)"
 *   iora_wptr   buf.data(): pointer to the buffer (the stub fills it)
 *   iora_recv / iora_SSL_read   PRECONDITION: the length stays inside the buffer. Result: -1 / any errno, 0 (EOF), or 1..len bytes,
 *               which become the buffer's content; G_received advances. G_rd_last remembers how the last call ended.
 *   the data-callback stub (unit pre.h) asserts that the view it gets starts at byte 0 of the buffer just filled, is not longer than
 *   what was received, and starts at stream position G_delivered (in order, exactly once). */
typedef struct { size_t cap; size_t lo, len; } iora_rbuf;
#define iora_rbuf_DEFAULT ((iora_rbuf){0, 0, 0})
typedef struct { iora_rbuf *b; } iora_wptr;
static inline void iora_rbuf_resize(iora_rbuf *b, size_t n) { b->cap = n; b->len = 0; }
static inline size_t iora_rbuf_size(const iora_rbuf *b) { return b->cap; }
static inline iora_wptr iora_rbuf_data(iora_rbuf *b) { iora_wptr p = { b }; return p; }
size_t G_received, G_delivered;
unsigned G_recv_calls, G_sslr_calls, G_rd_pos_calls;     /* calls of recv / SSL_read (saturating); how many of them returned > 0 (wrapping: compared modulo 2^32) */
#ifndef IORA_NATIVE
/* ssize_t recv(int fd, void *buf, size_t len, int flags) */
static inline long iora_recv(int fd, iora_wptr buf, size_t len, int flags)
{
  (void)fd; (void)flags;
  IORA_ASSERT(len >= 1 && len <= buf.b->cap, "R0 recv(): 1 <= length <= size of the buffer (narrowing of size() to int must not change it; a 0 length would read as EOF)");
  if (G_recv_calls < 0x7fffffffu) G_recv_calls++;
#ifdef IORA_SEARCH
  int fatal; long r = iora_env_next(len, &fatal);
  if (r < 0) G_errno = fatal ? 104 : EAGAIN;
#else
  long r = nondet_long();
  IORA_ASSUME(r >= -1 && (r < 0 || (size_t)r <= len));
  if (r < 0) G_errno = nondet_int();
#endif
  if (r > 0) { buf.b->lo = G_received; buf.b->len = (size_t)r; G_received += (size_t)r; G_rd_last = IORA_RD_DATA; G_rd_pos_calls++; }
  else if (r == 0) G_rd_last = IORA_RD_EOF;
  else G_rd_last = (G_errno == EAGAIN || G_errno == EWOULDBLOCK) ? IORA_RD_AGAIN : IORA_RD_ERROR;
  return r;
}
/* int SSL_pending(const SSL *ssl): plaintext bytes of the record OpenSSL has ALREADY decrypted. Any value >= 0: it says nothing about
 * complete records that are still in the kernel socket buffer, so it cannot stand in for the would-block answer of SSL_read (clause R3).
 * SEARCH build: 0 (the usual answer once a record has been consumed; what the replay executable answers too). */
static inline int iora_SSL_pending(SSL *ssl)
{
  IORA_ASSERT(ssl != 0, "SSL_pending(): session has an SSL object");
#ifdef IORA_SEARCH
  return 0;
#else
  int r = nondet_int(); IORA_ASSUME(r >= 0); return r;
#endif
}
/* int SSL_read(SSL *ssl, void *buf, int num): > 0 bytes, <= 0 ask SSL_get_error */
static inline int iora_SSL_read(SSL *ssl, iora_wptr buf, int num)
{
  IORA_ASSERT(ssl != 0, "SSL_read(): session has an SSL object");
  IORA_ASSERT(num >= 1 && (size_t)num <= buf.b->cap, "R0 SSL_read(): 1 <= num <= size of the buffer");
  if (G_sslr_calls < 0x7fffffffu) G_sslr_calls++;
#ifdef IORA_SEARCH
  int fatal; int r = (int)iora_env_next((size_t)num, &fatal); G_ssl_fatal = fatal; G_ssl_last_op = 1;
#else
  int r = nondet_int();
  IORA_ASSUME(r >= -1 && r <= num);
#endif
  if (r > 0) { buf.b->lo = G_received; buf.b->len = (size_t)r; G_received += (size_t)r; G_rd_last = IORA_RD_DATA; G_rd_pos_calls++; }
  else { G_ssl_last_ret = r; G_rd_last = IORA_RD_ERROR; }      /* refined by SSL_get_error */
  return r;
}
#endif

#endif
