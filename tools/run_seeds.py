#!/usr/bin/env python3
"""Run the registered check of each seeded change's property against a scratch copy of /repo/include with the change applied.
   (Equivalent to `git -C /repo apply` + check + `git -C /repo checkout -- .`, but does not disturb /repo while other work runs.)
   usage: run_seeds.py [seed-id ...]     -> updates seeded/<id>/result.json and prints a table"""
import json, os, re, shutil, subprocess, sys, time
V = os.path.dirname(os.path.dirname(os.path.abspath(__file__)))
ids = sys.argv[1:] or sorted(os.listdir(os.path.join(V, 'seeded')))
props = json.load(open(os.path.join(V, 'props.json')))
for sid in ids:
    d = os.path.join(V, 'seeded', sid)
    if not os.path.isdir(d):
        continue
    meta = json.load(open(os.path.join(d, 'meta.json')))
    prop = meta['property']
    if prop not in props:
        print(f"{sid}: property {prop} has no check yet")
        continue
    scratch = f"/tmp/iora_seedrun_{os.getpid()}"
    shutil.rmtree(scratch, ignore_errors=True)
    os.makedirs(scratch)
    shutil.copytree('/repo/include', os.path.join(scratch, 'include'))
    # a seed written against an earlier tree may not apply after later `fix:` commits: patch_rebased.diff is the same change re-anchored
    pf = os.path.join(d, 'patch_rebased.diff')
    if not os.path.exists(pf):
        pf = os.path.join(d, 'patch.diff')
    p = subprocess.run(['patch', '-p1', '-s', '-d', scratch, '-i', pf], stdout=subprocess.PIPE, stderr=subprocess.STDOUT, text=True)
    if p.returncode != 0:
        print(f"{sid}: patch does not apply: {p.stdout[-300:]}")
        shutil.rmtree(scratch, ignore_errors=True)
        continue
    t0 = time.time()
    env = dict(os.environ, IORA_REPO=scratch)
    r = subprocess.run([os.path.join(V, 'check'), prop, '--tier', meta.get('tier', 'quick'), '--evidence-dir', os.path.join(scratch, 'evidence')], env=env, cwd=V, stdout=subprocess.PIPE, stderr=subprocess.STDOUT, text=True)
    viol = [l for l in r.stdout.splitlines() if l.startswith('VIOLATION')]
    und = [l for l in r.stdout.splitlines() if l.startswith('UNDECIDED')]
    res = {"seed": sid, "property": prop, "exit": r.returncode, "detected": r.returncode == 1 and bool(viol), "violations": [v.split('replay=')[1] for v in viol][:6],
           "undecided": und[:3], "wall_s": round(time.time() - t0, 1), "at": time.strftime('%F %T')}
    json.dump(res, open(os.path.join(d, 'result.json'), 'w'), indent=1)
    print(f"{sid}: {'DETECTED' if res['detected'] else ('UNDECIDED' if r.returncode == 2 else 'MISSED')} exit={r.returncode} {len(viol)} violations {res['wall_s']}s")
    for v in res['violations'][:3]:
        print("    " + v.split('/')[-1])
    shutil.rmtree(scratch, ignore_errors=True)
    shutil.rmtree(os.path.join(V, '.work', 'alt_' + re.sub(r'\W+', '_', scratch)), ignore_errors=True)   # the check's work dir for this scratch tree
