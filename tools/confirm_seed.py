#!/usr/bin/env python3
"""Confirm an independently written breaking change: in a scratch worktree of /repo (outside /repo and /verif)
   (1) demo passes on the unchanged tree, (2) patch applies, (3) demo fails with it, (4) the named existing tests still build and pass with it.
   usage: confirm_seed.py <seed_dir> <worktree> [test-regex]   ->  writes <seed_dir>/confirm.json"""
import json, os, re, subprocess, sys, time
seed, wt = sys.argv[1].rstrip('/'), sys.argv[2]
tests = sys.argv[3] if len(sys.argv) > 3 else None
def sh(cmd, timeout=1800, cwd=None):
    try:
        p = subprocess.run(cmd, shell=True, cwd=cwd, stdout=subprocess.PIPE, stderr=subprocess.STDOUT, text=True, timeout=timeout)
        return p.returncode, p.stdout[-2000:]
    except subprocess.TimeoutExpired:
        return 124, 'timeout'
res = {"seed": os.path.basename(seed), "worktree": wt, "at": time.strftime('%F %T')}
demo = os.path.join(seed, 'demo.cpp')
if not os.path.exists(demo):
    demo = os.path.join(seed, 'demo_test.cpp')
first = open(demo).readline()
m = re.search(r'(g\+\+.*)$', first)
gcmd = m.group(1).strip()
exe = os.path.join(seed, 'demo_bin')
gcmd = re.sub(r'\bdemo(_test)?\.cpp\b', demo, gcmd)
gcmd = re.sub(r'-o\s+\S+', f'-o {exe}', gcmd)
sh(f'git -C {wt} checkout -- include')
rc, out = sh(gcmd, cwd=seed); res['build_unchanged'] = rc
rc, out = sh(f'timeout 60 {exe}', cwd=seed); res['demo_unchanged_exit'] = rc
rc, out = sh(f'git -C {wt} apply {os.path.join(seed, "patch.diff")}'); res['apply'] = rc; res['apply_out'] = out[-300:]
rc, out = sh(gcmd, cwd=seed); res['build_changed'] = rc
rc, out = sh(f'timeout 60 {exe}', cwd=seed); res['demo_changed_exit'] = rc; res['demo_changed_out'] = out[-600:]
if tests:
    targets = ' '.join(t for t in tests.split('|'))
    rc, out = sh(f'nice -n 5 cmake --build {wt}/_build -j3 --target {targets}'); res['tests_build'] = rc
    if rc != 0: res['tests_build_out'] = out[-800:]
    rc, out = sh(f'ctest --test-dir {wt}/_build -R "({tests})$" --timeout 600'); res['tests_exit'] = rc; res['tests_out'] = out[-600:]
sh(f'git -C {wt} checkout -- include')
os.remove(exe) if os.path.exists(exe) else None
res['confirmed'] = res['demo_unchanged_exit'] == 0 and res['apply'] == 0 and res['demo_changed_exit'] != 0 and (not tests or res.get('tests_exit') == 0)
json.dump(res, open(os.path.join(seed, 'confirm.json'), 'w'), indent=1)
print(json.dumps({k: v for k, v in res.items() if not k.endswith('_out')}))
