#!/usr/bin/env python3
"""Regenerate MANIFEST.json from props.json (claimed properties) + not_applicable.json. Run after editing either."""
import json, os
V = os.path.dirname(os.path.dirname(os.path.abspath(__file__)))
props = json.load(open(os.path.join(V, 'props.json')))
na = json.load(open(os.path.join(V, 'not_applicable.json')))
ids = [json.loads(l)['id'] for l in open(os.path.join(V, 'properties.jsonl'))]
checks = []
for pid in ids:
    if pid not in props:
        continue
    p = props[pid]
    checks.append({
        "property_id": pid,
        "quick_cmd": f"./check {pid} --tier quick",
        "thorough_cmd": f"./check {pid} --tier thorough",
        "evidence_file": f"evidence/{pid}.json",
        "replay_cmd_template": "./check --replay {path}",
        "engine": "cbmc-contracts",
        "level_claimed": {"category": "proof", "text": p['level_text'], "design_ref": p.get('design_ref', 'DESIGN.md §5 ' + pid)},
        "level_note": p['level_note'],
        "technique": p.get('technique', "CBMC 6.11 code contracts (requires/ensures/assigns, loop invariants + decreases) enforced per function with goto-instrument --dfcc on C text mechanically extracted from /repo on every run"),
    })
m = {
    "version": 1,
    "setup_cmd": "python3 -c \"import json; json.load(open('/verif/props.json'))\" && cbmc --version >/dev/null && goto-instrument --version >/dev/null",
    "hooks": {"guard": "IORA_VERIF", "enable": "no hooks in /repo: contracts live in /verif, replay adapters reach private members with g++ -fno-access-control",
              "baseline_off_cmd": "cmake --build /repo/_build && ctest --test-dir /repo/_build -j8 --timeout 900", "source_commits": [], "add_only": True},
    "engines": [{"name": "cbmc-contracts", "path": "check", "serves_properties": [c['property_id'] for c in checks],
                 "kind_free_text": "mechanical C++->C extraction (vt/x2c.py) + CBMC code contracts via goto-instrument --dfcc; bounded CBMC only as labelled stand-in and to search replay inputs"}],
    "checks": checks,
    "not_applicable": [{"property_id": pid, "reason": na[pid]} for pid in ids if pid not in props],
    "notes": "Contract-based deductive verification of the real code. See DESIGN.md. exit 2 of a check = undecided (extraction break / tool limit), never a violation.",
}
missing = [pid for pid in ids if pid not in props and pid not in na]
assert not missing, missing
json.dump(m, open(os.path.join(V, 'MANIFEST.json'), 'w'), indent=1)
print("MANIFEST.json:", len(checks), "claimed,", len(m['not_applicable']), "not applicable")
