"""Prepare a round of independent seeding agents: one scratch worktree of /repo per group under /tmp/seed<R>_<G> with a
PROPERTY.txt (property records + summaries of the changes earlier rounds produced) and a prompt file /tmp/p<R>_<G>.txt made from
tools/seed_prompt_template.txt.  usage: mk_seed_round.py <round-number> '{"A":["C01","C02"],...}'
Afterwards: give each agent only its prompt file; import with tools/import_round.py <worktree> r<R>; run tools/run_seeds.py;
remove the worktrees (git -C /repo worktree remove --force)."""
import json, os, glob, subprocess, sys
R=sys.argv[1]
groups=json.loads(sys.argv[2])
props={}
for l in open('/verif/properties.jsonl'):
    d=json.loads(l); props[d['id']]=d
tmpl=open(os.path.join(os.path.dirname(os.path.abspath(__file__)),'seed_prompt_template.txt')).read()
for g,ids in groups.items():
    wt=f'/tmp/seed{R}_{g}'
    subprocess.run(['git','-C','/repo','worktree','add','--detach',wt,'HEAD'],check=True,stdout=subprocess.DEVNULL,stderr=subprocess.DEVNULL)
    out=[]
    for i in ids:
        d=props[i]
        out.append(f"=== PROPERTY {i}: {d['title']}\n\nSTATEMENT: {d['statement']}\n\nQUANTIFIED OVER: {d['quantifier']['text']}\n\nWHY TESTS CANNOT SETTLE IT: {d['why_tests_cant']}\n\nANCHORS (code meant to make it hold):\n{json.dumps(d['anchors'],indent=1)}\n")
    out.append("\n=== CHANGES ALREADY PRODUCED IN EARLIER ROUNDS (do not repeat; prefer other functions/clauses/mechanisms):\n")
    for sd in sorted(glob.glob('/verif/seeded/*/')):
        m=json.load(open(sd+'meta.json'))
        if m['property'] in ids:
            out.append(f"- [{m['property']}] {str(m.get('summary',''))[:400]} (files: {', '.join(m.get('files_changed',[])) if isinstance(m.get('files_changed'),list) else m.get('files_changed')})\n")
    open(wt+'/PROPERTY.txt','w').write(''.join(out))
    p=tmpl.replace('seed3_A',f'seed{R}_{g}').replace('3 semantic properties (C18, C16, C20)',f"{len(ids)} semantic properties ({', '.join(ids)})").replace('"property": "C18/C16/C20"','"property": "'+'/'.join(ids)+'"')
    open(f'/tmp/p{R}_{g}.txt','w').write(p)
    print(g, ids, len(''.join(out)))
