#!/usr/bin/env python3
"""Rewrite the generated section of DESIGN.md (between the GENERATED markers): per-property status and the seeded-change table."""
import glob, json, os, re
V = os.path.dirname(os.path.dirname(os.path.abspath(__file__)))
props = json.load(open(f'{V}/props.json'))
na = json.load(open(f'{V}/not_applicable.json'))
kf = json.load(open(f'{V}/known_findings.json'))
ids = [json.loads(l)['id'] for l in open(f'{V}/properties.jsonl')]
out = ["<!-- GENERATED:BEGIN (tools/gen_design_tables.py) -->", "", "### 11.1 Status per property (from props.json, evidence/, known_findings.json)", "",
       "| id | claim | units | proofs | obligations (unbounded / bounded stand-ins) | fixed defects | known findings |", "|---|---|---|---|---|---|---|"]
for pid in ids:
    if pid not in props:
        out.append(f"| {pid} | not applicable | — | — | — | — | — |")
        continue
    ev = {}
    try:
        ev = json.load(open(f'{V}/evidence/{pid}.json'))
    except Exception:
        pass
    cov = ev.get('coverage', {})
    nproofs = sum(len(u.get('proofs', [])) for u in cov.get('units', []))
    bounded = sum(b.get('obligations', 0) for b in cov.get('bounded_stand_ins', []))
    fixed = [f for f in kf['fixed'] if f"property={pid} " in f]
    known = [f['id'] for f in kf['findings'] if f['property'] == pid]
    partial = 'partial' if props[pid].get('not_decided') else 'full'
    out.append(f"| {pid} | {partial} | {', '.join(props[pid]['units'])} | {nproofs or '?'} | {cov.get('obligations', '?')} / {bounded} | {len(fixed)} | {', '.join(known) or '—'} |")
out += ["", "Not applicable:", ""]
for pid in ids:
    if pid not in props:
        out.append(f"* **{pid}** — {na.get(pid, '?')}")
out += ["", "### 11.2 Defects found by failed obligations on the tree as given, reproduced natively, and repaired in /repo (`fix:` commits)", ""]
for f in kf['fixed']:
    out.append("* " + f)
out += ["", "Known findings (reported as `KNOWN-FINDING:` lines, exit 0; any other violation of the same property is still reported):", ""]
for f in kf['findings']:
    out.append(f"* **{f['id']}** ({f['property']}): {f['what']}")
out += ["", "### 11.3 Independently seeded breaking changes (written by sub-agents that saw only the property text) and which check catches them", "",
        "Each change compiles, passes the existing tests it touches, and has a demonstration that fails with it and passes without it (confirmed by `tools/confirm_seed.py` in a scratch worktree; `confirm.json`). `tools/run_seeds.py` applies the patch to a scratch copy of /repo/include and runs the property's registered quick check (`result.json`).", "",
        "| seed | property | what it needs to manifest | result | failing obligation(s) |", "|---|---|---|---|---|"]
for d in sorted(glob.glob(f'{V}/seeded/*/')):
    sid = os.path.basename(d.rstrip('/'))
    meta = json.load(open(d + 'meta.json'))
    res = {}
    if os.path.exists(d + 'result.json'):
        res = json.load(open(d + 'result.json'))
    st = 'not run (property unclaimed)' if not res else ('**detected**' if res.get('detected') else ('undecided (exit 2)' if res.get('exit') == 2 else '**missed**'))
    obl = '; '.join(sorted({re.sub(r'_[0-9a-f]{6}\.json.*$', '', v.split('/')[-1])[:110] for v in res.get('violations', [])}))[:330]
    need = re.sub(r'\s+', ' ', str(meta.get('needs_to_manifest', '')))[:260].replace('|', '/')
    out.append(f"| {sid} | {meta.get('property')} | {need} | {st} | {obl} |")
out += ["", "<!-- GENERATED:END -->"]
txt = open(f'{V}/DESIGN.md').read()
block = '\n'.join(out)
if 'GENERATED:BEGIN' in txt:
    txt = re.sub(r'<!-- GENERATED:BEGIN.*?GENERATED:END -->', lambda m: block, txt, flags=re.S)
else:
    txt += "\n\n## 11. Status (generated)\n\n" + block + "\n"
open(f'{V}/DESIGN.md', 'w').write(txt)
print("DESIGN.md generated section updated")
