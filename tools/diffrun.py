#!/usr/bin/env python3
"""Differential validation of the extraction (DESIGN 2.3 item 3): a TRANSLATION CHECK, not a decision procedure.

    tools/diffrun.py <unit> [<unit> ...] [--n N] [--seed S] [--keep] [--show K]

For every unit that opts in (units/<unit>/unit.json has a "diff" entry, see UNITS.md "Differential validation"):
  1. the unit is re-extracted from the current tree (IORA_REPO honoured) exactly as ./check does;
  2. the extracted TU .work/<unit>/unit.c minus its final `#include "post.c"` (contracts + CBMC harnesses) is written to
     .work/<unit>/unit_native.c and compiled NATIVELY together with units/<unit>/diff.c:
         gcc -DIORA_NATIVE  (shims: IORA_ASSERT aborts, IORA_ASSUME/canaries/loop contracts vanish)
  3. units/<unit>/diff.cpp drives the REAL C++ through the headers (g++ -std=c++17 -fno-access-control), ASan/UBSan on both sides;
  4. both executables read the same input file (native/diff_io.h: one input per line `<hex|-> [key=value ...]`) and print one result
     line per input; the lines must be textually identical.
Inputs: units/<unit>/corpus.txt, every input recorded in /verif/replays/**/<unit>.*.json, and N random / mutated inputs drawn from
VERIF_SEED (N = diff.n_quick or 2000).

exit 0:  `DIFF <unit>: <n> inputs, 0 disagreements`       exit 2: first disagreeing input (or build failure / crash of one side).
A disagreement means the extracted text does not behave like the code that runs (extraction rule, shim model or type environment
is wrong) -- never a property violation.
"""
import argparse
import glob
import json
import os
import random
import re
import subprocess
import sys

sys.path.insert(0, os.path.dirname(os.path.dirname(os.path.abspath(__file__))))
from vt import pipeline as pl            # noqa: E402

VERIF = pl.VERIF
SAN = ['-fsanitize=address,undefined', '-fno-sanitize-recover=undefined']


def log(*a):
    print(*a, flush=True)


def tok_bytes(s):
    """tokens in unit.json are JSON strings; each code point <= 0xFF is one byte (latin-1), so "\\u00e9" is the byte E9"""
    return s.encode('latin-1')


def line_of(data, params):
    h = data.hex() if data else '-'
    return h + ''.join(f' {k}={v}' for k, v in params.items())


def gen_params(rng, spec, n):
    out = {}
    for k, v in (spec or {}).items():
        if v == 'le_len':                     # a cursor: 0 half of the time, else anywhere up to the end
            out[k] = 0 if rng.random() < 0.5 else rng.randint(0, n)
        elif v == 'le_len0':                  # 0 (= feature off) two thirds of the time, else a length up to the end
            out[k] = 0 if rng.random() < 0.66 else rng.randint(0, n)
        elif v == 'lt_len':
            out[k] = rng.randint(0, max(0, n - 1))
        elif isinstance(v, list):
            c = rng.choice(v)
            out[k] = gen_params(rng, {k: c}, n)[k] if c in ('le_len', 'lt_len', 'le_len0') else c
        else:
            out[k] = v
    return out


def gen_inputs(rng, cfg, seeds, count):
    toks = [tok_bytes(t) for t in cfg.get('tokens', [])]
    max_len = cfg.get('max_len', 32)
    tw = cfg.get('token_weight', 0.6) if toks else 0.0
    prefixes = [tok_bytes(t) for t in cfg.get('prefix', [])]
    suffixes = [tok_bytes(t) for t in cfg.get('suffix', [])]
    res = []

    def piece():
        if rng.random() < tw:
            return rng.choice(toks)
        r = rng.random()
        if r < 0.7:
            return bytes([rng.randint(0x20, 0x7e)])
        return bytes([rng.randint(0, 255)])

    def fresh():
        b = b''
        if prefixes and rng.random() < cfg.get('prefix_weight', 0.8):
            b += rng.choice(prefixes)
        target = rng.randint(0, max_len)
        while len(b) < target:
            b += piece()
        b = b[:max_len]
        if suffixes and rng.random() < cfg.get('suffix_weight', 0.7):
            b += rng.choice(suffixes)
        return b

    def mutate(b):
        b = bytearray(b)
        for _ in range(rng.randint(1, 3)):
            op = rng.randint(0, 5)
            pos = rng.randint(0, len(b)) if b else 0
            if op == 0 and b:
                b[rng.randrange(len(b))] = rng.randint(0, 255)
            elif op == 1:
                b[pos:pos] = piece()
            elif op == 2 and b:
                e = min(len(b), pos + rng.randint(1, 4))
                del b[pos:e]
            elif op == 3 and b:
                del b[rng.randint(0, len(b)):]
            elif op == 4 and b:
                e = min(len(b), pos + rng.randint(1, 6))
                b[pos:pos] = b[pos:e]
            elif op == 5 and b:
                i = rng.randrange(len(b))
                b[i] ^= 1 << rng.randint(0, 7)
        return bytes(b[:max_len])

    pool = [s for s in seeds]
    for _ in range(count):
        if pool and rng.random() < 0.4:
            b = mutate(rng.choice(pool))
        else:
            b = fresh()
            if rng.random() < 0.1:
                pool.append(b)
        res.append(line_of(b, gen_params(rng, cfg.get('params'), len(b))))
    return res


def parse_line(l):
    h = l.split(' ', 1)[0]
    return b'' if h == '-' else bytes.fromhex(h)


def replay_inputs(unit):
    """every input recorded in a replay file of this unit -> input lines"""
    out = []
    for f in sorted(glob.glob(os.path.join(VERIF, 'replays', '**', f'{unit}.*.json'), recursive=True)):
        try:
            inp = (json.load(open(f)).get('replay') or {}).get('inputs') or {}
        except Exception:
            continue
        if not inp:
            continue
        data = bytes.fromhex(re.sub(r'[^0-9a-fA-F]', '', inp.get('IN', '')))
        if 'IN_N' in inp:
            try:
                data = data[:int(inp['IN_N'], 0)]
            except ValueError:
                pass
        params = {k.lower(): v for k, v in inp.items() if k not in ('IN', 'IN_N') and re.fullmatch(r'\d+', str(v))}
        l = line_of(data, params)
        if l not in out:
            out.append(l)
    return out


def sh(cmd, timeout=900):
    p = subprocess.run(cmd, stdout=subprocess.PIPE, stderr=subprocess.PIPE, text=True, timeout=timeout)
    return p.returncode, p.stdout, p.stderr


def run_side(exe, path, timeout):
    env = dict(os.environ, ASAN_OPTIONS='detect_leaks=0:allocator_may_return_null=1', UBSAN_OPTIONS='print_stacktrace=1')
    try:
        p = subprocess.run([exe, path], stdout=subprocess.PIPE, stderr=subprocess.PIPE, timeout=timeout, env=env)
        return p.returncode, p.stdout.decode('utf-8', 'replace').splitlines(), p.stderr.decode('utf-8', 'replace')
    except subprocess.TimeoutExpired as e:
        return -9, (e.stdout or b'').decode('utf-8', 'replace').splitlines(), 'timeout'


def diff_unit(name, n, seed, show):
    u = pl.Unit(name)
    cfg = u.spec.get('diff')
    if not cfg:
        log(f"DIFF {name}: unit does not opt in (no \"diff\" entry in unit.json)")
        return 0
    try:
        u.extract()
    except pl.Undecided as e:
        log(f"DIFF {name}: UNDECIDED {e}")
        return 2
    src = open(os.path.join(u.work, 'unit.c')).read()
    if src.count('#include "post.c"') != 1:
        log(f"DIFF {name}: UNDECIDED extracted TU has no single `#include \"post.c\"`")
        return 2
    with open(os.path.join(u.work, 'unit_native.c'), 'w') as f:
        f.write(src.replace('#include "post.c"', '/* post.c (contracts, CBMC harnesses) is not part of the native build */'))
    cexe, xexe = os.path.join(u.work, 'diff_c'), os.path.join(u.work, 'diff_cpp')
    incs = ['-I', u.work, '-I', os.path.join(VERIF, 'shims'), '-I', u.dir, '-I', os.path.join(VERIF, 'native')]
    # callees that this unit only declares (contract-replaced in its proofs) and another unit extracts: that unit's native TU is
    # compiled separately and linked (-fcommon merges the ghost globals that both TUs define tentatively in shared headers)
    objs = []
    for lu in cfg.get('link_units', []):
        o = pl.Unit(lu)
        try:
            o.extract()
        except pl.Undecided as e:
            log(f"DIFF {name}: UNDECIDED linked unit {lu}: {e}")
            return 2
        osrc = open(os.path.join(o.work, 'unit.c')).read().replace('#include "post.c"', '')
        opath = os.path.join(u.work, f'{lu}_native.c')
        open(opath, 'w').write(osrc)
        oobj = os.path.join(u.work, f'{lu}_native.o')
        rc, out, err = sh(['gcc', '-std=gnu11', '-O1', '-g', '-w', '-fcommon', '-DIORA_NATIVE'] + SAN + ['-I', os.path.join(VERIF, 'shims'), '-I', o.dir, '-c', opath, '-o', oobj])
        if rc != 0:
            log(f"DIFF {name}: UNDECIDED linked unit {lu} does not compile natively:\n{err[-2000:]}")
            return 2
        objs.append(oobj)
    # a linked unit may extract helpers that this unit extracts too (same text, same symbol): the first definition wins
    dup = ['-Wl,--allow-multiple-definition'] if objs else []
    cdefs = [f'-D{d}' for d in cfg.get('cdefs', [])]      # unit-specific switches of pre.h (e.g. an inline allocation body)
    rc, out, err = sh(['gcc', '-std=gnu11', '-O1', '-g', '-w', '-fcommon', '-DIORA_NATIVE'] + cdefs + SAN + incs + [os.path.join(u.dir, cfg.get('c', 'diff.c'))] + objs + dup + ['-o', cexe] + cfg.get('clibs', ['-lm']))
    if rc != 0:
        log(f"DIFF {name}: UNDECIDED extracted text does not compile natively (gcc -DIORA_NATIVE):\n{err[-3000:]}")
        return 2
    rc, out, err = sh(['g++', '-std=c++17', '-O1', '-g', '-w', '-fno-access-control'] + SAN + cfg.get('cxxflags', []) + ['-I', os.path.join(pl.REPO, 'include'), '-I', os.path.join(VERIF, 'native'),
                       os.path.join(u.dir, cfg.get('cpp', 'diff.cpp')), '-o', xexe] + cfg.get('libs', ['-lpthread']))
    if rc != 0:
        log(f"DIFF {name}: UNDECIDED real-code driver does not compile:\n{err[-3000:]}")
        return 2
    # inputs
    lines = []
    cpath = os.path.join(u.dir, cfg.get('corpus', 'corpus.txt'))
    if os.path.exists(cpath):
        for l in open(cpath):
            l = l.strip()
            if l and not l.startswith('#'):
                lines.append(l)
    ncorpus = len(lines)
    rl = [l for l in replay_inputs(name) if l not in lines]
    lines += rl
    rng = random.Random(f"{seed}:{name}")
    count = n if n is not None else cfg.get('n_quick', 2000)
    lines += gen_inputs(rng, cfg, [parse_line(l) for l in lines], count)
    ipath = os.path.join(u.work, 'diff_inputs.txt')
    with open(ipath, 'w') as f:
        f.write('\n'.join(lines) + '\n')
    tmo = cfg.get('timeout', 600)
    rc1, o1, e1 = run_side(cexe, ipath, tmo)
    rc2, o2, e2 = run_side(xexe, ipath, tmo)
    if cfg.get('line_prefix'):          # the real code may log to stdout: only lines with this prefix are result lines
        o1 = [l for l in o1 if l.startswith(cfg['line_prefix'])]
        o2 = [l for l in o2 if l.startswith(cfg['line_prefix'])]
    k = 0
    while k < len(lines) and k < len(o1) and k < len(o2) and o1[k] == o2[k]:
        k += 1
    if k == len(lines) and len(o1) == len(lines) and len(o2) == len(lines) and rc1 == 0 and rc2 == 0:
        log(f"DIFF {name}: {len(lines)} inputs, 0 disagreements  ({ncorpus} corpus, {len(rl)} from replay files, {count} generated, seed {seed})")
        for j in range(min(show, len(lines))):
            log(f"   {lines[j]}  =>  {o1[j]}")
        return 0
    log(f"DIFF {name}: DISAGREEMENT at input #{k} of {len(lines)} (exit 2: extraction / shim fault, not a property violation)")
    if k < len(lines):
        log(f"   input     : {lines[k]}")
    log(f"   extracted C: {o1[k] if k < len(o1) else f'<no output; exit {rc1}> ' + e1[-600:]}")
    log(f"   real C++   : {o2[k] if k < len(o2) else f'<no output; exit {rc2}> ' + e2[-600:]}")
    if k >= len(lines):
        log(f"   exit codes: C {rc1}, C++ {rc2}; stderr C: {e1[-300:]} C++: {e2[-300:]}")
    return 2


def main():
    ap = argparse.ArgumentParser()
    ap.add_argument('units', nargs='+')
    ap.add_argument('--n', type=int, default=None, help='number of generated inputs (default: diff.n_quick or 2000)')
    ap.add_argument('--seed', default=os.environ.get('VERIF_SEED', '0') or '0')
    ap.add_argument('--show', type=int, default=0, help='print the first K inputs with their (agreed) result line')
    a = ap.parse_args()
    rc = 0
    for name in a.units:
        try:
            rc = max(rc, diff_unit(name, a.n, a.seed, a.show))
        except Exception as e:      # tool-side problem: undecided, never a violation
            log(f"DIFF {name}: UNDECIDED internal error {type(e).__name__}: {e}")
            rc = 2
    return rc


if __name__ == '__main__':
    sys.exit(main())
