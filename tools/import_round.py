#!/usr/bin/env python3
"""Import a seed agent's output: <worktree>/seeds/*/{patch.diff,demo.cpp,meta.json} -> /verif/seeded/<prop>-r2-<name>/ and confirm each
   (tools/confirm_seed.py: demo passes unchanged, patch applies, demo fails changed, the tests the author ran still pass)."""
import glob, json, os, re, shutil, subprocess, sys
wt = sys.argv[1].rstrip('/')
tag = sys.argv[2] if len(sys.argv) > 2 else 'r2'
V = os.path.dirname(os.path.dirname(os.path.abspath(__file__)))
for d in sorted(glob.glob(wt + '/seeds/*/')):
    name = os.path.basename(d.rstrip('/'))
    meta = json.load(open(d + 'meta.json'))
    pid = re.search(r'C\d\d', str(meta.get('property', ''))).group()
    meta['property'] = pid
    name2 = re.sub(r'^C\d\d-', '', name)
    dest = os.path.join(V, 'seeded', f'{pid}-{tag}-{name2}')
    os.makedirs(dest, exist_ok=True)
    for f in ('patch.diff', 'demo.cpp'):
        shutil.copy(d + f, dest)
    json.dump(meta, open(os.path.join(dest, 'meta.json'), 'w'), indent=1)
    tests = []
    for t in meta.get('tests_run', []):
        m = re.search(r'((?:iora_)?test_\w+|iora_test_\w+)', str(t))
        if m and m.group(1) not in tests and 'transport' != m.group(1):
            tests.append(m.group(1))
    tests = [t for t in tests if t not in ('iora_test_transport', 'iora_test_tcp_engine_timers', 'test_application_integration', 'iora_test_http_client_pool')][:4]
    cmd = [sys.executable, os.path.join(V, 'tools', 'confirm_seed.py'), d, wt] + (['|'.join(tests)] if tests else [])
    r = subprocess.run(cmd, stdout=subprocess.PIPE, stderr=subprocess.STDOUT, text=True)
    if os.path.exists(d + 'confirm.json'):
        shutil.copy(d + 'confirm.json', dest)
        c = json.load(open(d + 'confirm.json'))
        print(os.path.basename(dest), 'confirmed' if c['confirmed'] else f"NOT CONFIRMED {c.get('demo_unchanged_exit')} {c.get('demo_changed_exit')} {c.get('tests_exit')}", tests)
    else:
        print(os.path.basename(dest), 'confirm tool failed', r.stdout[-300:])
