// Minimal input loader for replay adapters: a text file of `name value` lines; bytes as hex, integers as decimal.
#pragma once
#include <cstdint>
#include <cstdio>
#include <cstdlib>
#include <fstream>
#include <map>
#include <sstream>
#include <string>
#include <vector>
namespace replay_io {
inline std::map<std::string, std::string> load(const char *path) {
  std::map<std::string, std::string> m; std::ifstream f(path); std::string line;
  while (std::getline(f, line)) { std::istringstream is(line); std::string k, v; is >> k; std::getline(is, v);
    size_t a = v.find_first_not_of(' '); m[k] = a == std::string::npos ? "" : v.substr(a); }
  return m; }
inline std::vector<uint8_t> bytes(const std::string &hex) { std::vector<uint8_t> out; std::string h;
  for (char c : hex) if (isxdigit((unsigned char)c)) h.push_back(c);
  for (size_t i = 0; i + 1 < h.size(); i += 2) out.push_back((uint8_t)strtoul(h.substr(i, 2).c_str(), nullptr, 16));
  return out; }
inline unsigned long long u64(const std::string &s) { return strtoull(s.c_str(), nullptr, 0); }
inline long long i64(const std::string &s) { return strtoll(s.c_str(), nullptr, 0); }
[[noreturn]] inline void fail(const std::string &what) { printf("REPLAY-FAIL: %s\n", what.c_str()); fflush(stdout); exit(1); }
inline void ok(const std::string &what) { printf("REPLAY-OK: %s\n", what.c_str()); }
}
