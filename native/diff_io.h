/* Differential run (tools/diffrun.py): input/output helpers shared by units/<unit>/diff.c (C, extracted text) and diff.cpp (real C++).
 * Input file: one input per line:   <hex bytes or "-" for empty> [key=value ...]
 * Each side prints exactly one result line per input line (same format on both sides); the tool compares them textually. */
#ifndef IORA_DIFF_IO_H
#define IORA_DIFF_IO_H
#include <stdio.h>
#include <stdlib.h>
#include <string.h>
#include <stdint.h>
typedef struct { unsigned char *bytes; size_t n; char kv[512]; } diff_input;
static inline int diff_hexv(int c) { return c >= '0' && c <= '9' ? c - '0' : c >= 'a' && c <= 'f' ? c - 'a' + 10 : c >= 'A' && c <= 'F' ? c - 'A' + 10 : -1; }
/* reads the next input; bytes live in an exact-size malloc block (so that ASan sees reads past the end). returns 0 at EOF */
static inline int diff_next(FILE *f, diff_input *in)
{
  static char line[1 << 19];
  if (!fgets(line, sizeof line, f)) return 0;
  size_t L = strlen(line); while (L && (line[L - 1] == '\n' || line[L - 1] == '\r')) line[--L] = 0;
  char *sp = strchr(line, ' ');
  size_t hl = sp ? (size_t)(sp - line) : L;
  in->kv[0] = 0; if (sp) { strncpy(in->kv, sp + 1, sizeof in->kv - 1); in->kv[sizeof in->kv - 1] = 0; }
  in->n = (hl == 1 && line[0] == '-') ? 0 : hl / 2;
  in->bytes = (unsigned char *)malloc(in->n);
  for (size_t i = 0; i < in->n; i++) in->bytes[i] = (unsigned char)(diff_hexv(line[2 * i]) * 16 + diff_hexv(line[2 * i + 1]));
  return 1;
}
/* value of key (unsigned decimal) or dflt */
static inline unsigned long long diff_param(const diff_input *in, const char *key, unsigned long long dflt)
{
  size_t kl = strlen(key); const char *p = in->kv;
  while (*p) { while (*p == ' ') p++; if (!strncmp(p, key, kl) && p[kl] == '=') return strtoull(p + kl + 1, NULL, 10); while (*p && *p != ' ') p++; }
  return dflt;
}
static inline void diff_free(diff_input *in) { free(in->bytes); in->bytes = NULL; }
static inline void diff_hex(const unsigned char *p, size_t n) { if (!n) printf("-"); for (size_t i = 0; i < n; i++) printf("%02x", p[i]); }
#endif
